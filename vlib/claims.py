"""Per-property claim texts for MANIFEST.json and per-property evidence metadata."""
TB = "Trusted: Kani 0.68 MIR->goto translation, CBMC 6.11 float_bv (one NaN; its fma is replaced by a corrected model on zero factors, its f64 `%` is not used by any claimed clause - DESIGN section 8), kissat/cvc5, rustc + host FPU for native replay and ground evaluation. "
T_PROOF = "contract proof (Kani/CBMC bit-precise), modular contract stubs, native replay of counterexamples"
T_MITER = "contract proof: miter of the real body against the published algorithm / the inherent function (Kani/CBMC, cvc5 and Ackermann stubs), leaf contracts proved per exponent gap, native replay judged by exact Fix arithmetic"
T_MIX = "contract proof of totality/domain/structure clauses (Kani/CBMC, value-independent operator stubs) + native evaluation of the finite exact-point sets; accuracy clauses: finite mpmath reference sample only (not a proof)"

CLAIMS = {
    "C01": {
        "text": "Proved for all valid operands in the stated ranges that the result is a valid TwoFloat: the ten +/- operator and compound-assignment bodies, the five * bodies, to_degrees/to_radians, TwoFloat/f64 and /=, new_div (modular: new_add/new_sub/new_mul/fast_two_sum replaced by their contracts, which are proved for all inputs per exponent gap under C02), Neg; floor/ceil/trunc/round/fract (C08), From<int> (C09), abs/min/max (C06), constants (C12) through their own checks. NOT decided for all inputs: f64/TwoFloat, TwoFloat/TwoFloat, /=TwoFloat, recip, %, div_euclid, rem_euclid, the elementary functions (their results are checked valid only on the finite samples: 600 division pairs, 1797 reference operands of C13-C18), and the induction over arbitrary call chains.",
        "note": TB + "Rests on the leaf contracts discharged by C02's check (thorough: all 297 obligations) and on lemma L0 (valid_bits == Definition 1.4, proved under C07). Elementary functions and long division: not decided (magnitude reasoning through polynomial evaluation / three-digit long division is out of reach).",
        "technique": T_PROOF,
    },
    "C02": {
        "text": "Proved for ALL finite operand pairs below 2^1023 at full 53-bit width: fast_two_sum (under its precondition), new_add and new_sub return hi == RN(a+-b), a valid pair, and hi + lo == a +- b exactly - one obligation per difference of the exponent fields (-56..56), two far cases, zero-operand case and a coverage lemma (thorough: 297 obligations, all discharged; quick: far/zero cases + 2 seeded gaps per function). new_mul: hi == RN(ab) for all pairs, bit-identical to 2Prod (RN(ab), fma(a,b,-RN(ab))), and hi + lo == ab EXACTLY for every finite pair (subnormal operands included) whose rounded product is non-zero and in [2^-960, 2^1023) - the 2Prod theorem proved at full 53-bit width against an integer product of the significands (quick, 5 min); valid in that domain (thorough). from_f64/From<f64> exact. new_div: bit-identical to Algorithm 15 and valid (under C05/C01). NOT decided: the 3*2^-106 bound of new_div at full width (rests on the assumed theorem for Alg. 15).",
        "note": TB + "Exactness is stated by a gap-anchored integer window predicate that is sufficient for real-number equality by construction (lemma exact_cases_are_contract ties the per-gap predicates to the contract's predicate); natively every counterexample is judged by exact 2432-bit fixed-point arithmetic.",
        "technique": T_PROOF + "; leaf obligations case-split on the exponent gap",
    },
    "C03": {
        "text": "Proved for all operand word patterns: each of the ten +/- operator and compound-assignment bodies is bit-identical to the published algorithm (Alg. 4 DWPlusFP / Alg. 6 AccurateDWPlusDW of Joldes-Muller-Popescu 2017) composed of the contracted leaves; proved: an exactly-zero sum yields (0,0) in all eight spellings; the leaves are error-free transformations (C02, all inputs). The 2u^2 and 3u^2+13u^3 bounds then follow from the published theorem for these algorithms (assumed lemma; Coq-formalised by Muller-Rideau 2022). Native replay of any counterexample judges the stated bound itself in exact arithmetic. Iterator::sum == left fold: not decided (CBMC fails on the iterator fold). Thorough tier: the 2u^2 bound of Algorithm 4 is mechanised per exponent gap with ghost values (seed-rotated subset per run; a full sweep of all 123 cases of the x + y variant was discharged, DESIGN 14.9).",
        "note": TB + "Assumed lemma: error bounds of Alg. 4 / Alg. 6 (published + Coq). A failing miter is reported as a violation of the named obligation; when the solver's model does not violate the bound natively the line ends with no-failing-input-found.",
        "technique": T_MITER,
    },
    "C04": {
        "text": "Proved for all operand word patterns: the five * bodies are bit-identical to Alg. 9 (DWTimesFP3) / Alg. 12 (DWTimesDW3) over new_mul, fast_two_sum and the fma primitive; proved for valid in-range operands: zero factor => (0,0), x*(+-1) == +-x in every spelling, x*2^k exact when lo*2^k does not underflow; results valid (C01). The 2u^2 / 5u^2 bounds follow from the published theorems (assumed lemma) given that new_mul is an exact 2Prod (proved: hi == RN(ab) and hi + lo == ab exactly, all inputs of the domain). Model-agreement obligation: corrected fma model == hardware fma on 240 seeded triples. Thorough tier: the 2u^2 bound of Algorithm 9 (TwoFloat * f64) is mechanised with ghost values and an exact 53 x 53 product of xl * y for the cases that close: low word at the half-ulp tie (gap 53), gaps 103, 105, 106, 107, 110 and the far case (low word zero or more than 112 binades down); gaps 54..102 time out (> 90 min each) and keep the published theorem as an assumed lemma.",
        "note": TB + "Assumed lemmas: error bounds of Alg. 9 / Alg. 12. CBMC's fma is wrong for an exact-zero factor with a large-exponent cofactor (found here, reproduced standalone); value obligations install a corrected model, miters are insensitive to the model.",
        "technique": T_MITER,
    },
    "C05": {
        "text": "Proved for all operand word patterns: TwoFloat/f64, /=f64 and new_div are bit-identical to Alg. 15 (DWDivFP3); recip(x) == 1.0/x bit for bit; /= TwoFloat == / (C10). Proved for valid in-range operands: x/(+-1.0) exact, x/2^k exact without underflow, zero numerator => zero (all three pairings). Native ground set: x/x == 1, x/TwoFloat(+-1), x/TwoFloat(8), recip on 126 structured operands. NOT decided: the 16*2^-106 bound of the three-digit long division (f64/TwoFloat, TwoFloat/TwoFloat, /=, recip) and x/x == 1 for all x. The 16*2^-106 clause of the long-division family is additionally evaluated exactly (Fix arithmetic) on a seeded sample of 600 valid operand pairs x 4 forms: a sample, not a proof.",
        "note": TB + "Assumed lemma: 3u^2 bound of Alg. 15 (published + Coq). No published theorem exists for the qd-style long division used for TwoFloat divisors: its accuracy clause is not decided by this technique.",
        "technique": T_MITER,
    },
    "C06": {
        "text": "Proved for all valid a, b and all f64 c: partial_cmp and < <= > >= == != (TwoFloat/TwoFloat, TwoFloat/f64, f64/TwoFloat) equal the lexicographic order of the words; for ALL 2^256 word patterns: == symmetric, == iff partial_cmp == Some(Equal), any NaN word => unequal and unordered both ways; min/max return an operand, extremal, skipping an invalid operand; abs/is_sign_*/signum/copysign follow the sign of hi. Lemma L-sign (value has the sign of hi; Fix arithmetic) and L-mono (neighbouring floats are ordered, adjacent ones differ in parity) proved in quick; lemma L-bracket (8 one-pair Fix cases) in thorough.",
        "note": TB + "The step 'lexicographic order of valid pairs == order of exact values' (L-lex) is mechanised as L-bracket (thorough) + L-mono (quick); the remaining step - adding two inequalities and transitivity on the reals - is pen and paper (DESIGN section 3); natively every counterexample is re-judged with exact Fix comparison. no_overlap is replaced by its contract (proved under C07).",
        "technique": T_PROOF,
    },
    "C07": {
        "text": "Proved for all 2^128 pairs of f64 bit patterns: no_overlap's real body (libm exp2/copysign/fabs compiled from source and verified through) equals Definition 1.4; is_valid and both TryFrom impls proved against the definition modularly over no_overlap's contract, words preserved bit for bit, conversion back returns them, otherwise ConversionError.",
        "note": TB + "No assumed lemma, no bounded stand-in, no precondition.",
        "technique": T_PROOF,
    },
    "C08": {
        "text": "Proved for every valid x (no range limit): floor, ceil, trunc, round, fract return a valid pair whose exact value equals the 'rounding of a normalised pair' formula (fast_two_sum replaced by its exactness contract; libm modf/floor/ceil/round/trunc proved bit-equal to mask-arithmetic specifications for all f64). The formulas are tied to the definitional roundings of hi+lo in 2432-bit fixed point by five one-pair lemmas (thorough) and are differential-tested against them at setup; natively every counterexample is judged by the definitional rounding, including trunc(x)+fract(x) == x.",
        "note": TB + "Quick tier assumes the five pair-formula lemmas (proved in thorough, about 20 min each; spec self-test on 10^6 operands at setup).",
        "technique": T_PROOF,
    },
    "C09": {
        "text": "Proved for every value of the type: From<i8..u32> exact; From<i64|u64|i128|u128> valid, exact up to 106 significant bits, else within 2^-106|n| (Fix arithmetic); T::try_from(x) for valid x and all ten integer types: Ok(t) iff T::MIN <= trunc(value) <= T::MAX and t == trunc(value) (trunc replaced by its C08 contract; 64/128-bit targets in thorough), non-finite x => Err, T::try_from(TwoFloat::from(n)) == Ok(n) for all n of the 8..64-bit types; f64/f32 conversions; ToPrimitive/FromPrimitive routes agree; NumCast::from(i64) exact.",
        "note": TB + "Two defects found by these obligations were repaired in /repo (known_findings.json: From<i128> not normalised; NumCast::from(2^53+1)).",
        "technique": T_PROOF,
    },
    "C10": {
        "text": "Proved for all operand word patterns: for + - * / % and the three operand pairings every by-value / by-reference / compound-assignment spelling is bit-identical to the &a op &b body (15 obligations, 5 comparisons each; % with its quotient/trunc/product/difference as arbitrary fixed functions); -x == -&x, -(-a) == a, x+f == f+x, x*f == f*x; 45 num_traits entry points (Float, FloatCore, Signed, Inv, Pow<i8..u16,i32,f64,TwoFloat>, Zero/One, Bounded, FloatConst, mul_add, abs_sub) return exactly what the inherent counterpart returns (Ackermann stubs). NOT decided: a+b == b+a, a-b == a+(-b) == -(b-a), (-a)*b == -(a*b) for TwoFloat operands (cvc5 time-out) and Iterator::sum == fold (CBMC failure).",
        "note": TB + "Ackermann stubs: the delegation obligations state which function is called with which arguments, independently of the function's value.",
        "technique": T_MITER,
    },
    "C11": {
        "text": "Proved in the --no-default-features --features math_funcs build, libm::fma replaced by its assumed contract (the IEEE fma primitive): new_mul(a,b) == (RN(ab), fma(a,b,-RN(ab))) for all pairs and the seven bodies that use the private fma are bit-identical to Alg. 9 / 12 / 15 over that primitive, for all operand patterns - the same obligations C04/C05 discharge in the default build, so both builds compute the same function of the same primitive. The cfg-selected fma is the only feature-dependent numeric item (inventory in DESIGN).",
        "note": TB + "Assumed contract: libm::fma and the platform's f64::mul_add are correctly rounded fused multiply-adds (external code; libm's software path dispatches through inline asm that Kani cannot execute).",
        "technique": T_MITER,
    },
    "C12": {
        "text": "Complete finite check: each of the 19 consts (and FloatConst accessor, C10) equals bit for bit the correctly rounded double-double derived independently in integer fixed point at 420 bits (enclosures exclude every rounding boundary; cross-checked with mpmath); MAX/MIN valid and extremal among all valid values (proved for all x), MIN_POSITIVE, NAN != NAN, infinities invalid; the private angle factors equal RN2(180/pi), RN2(pi/180) and to_degrees/to_radians are bit-identical to x * factor for all x (their 6*2^-106 bound then rests on C04's assumed 5u^2 theorem).",
        "note": TB + "Trusted data: refdata/constants.json (re-derived by `gen_consts.py --verify` at setup).",
        "technique": "ground evaluation of a finite set against independently derived reference words + contract proofs (Kani/CBMC)",
    },
    "C13": {
        "text": "Proved: powi never panics for any i32 exponent (complete 32-fold unwinding, overflow checks on); powi(x,0) == 1 / NaN, powi(x,1) == x; sqrt of every negative valid x is invalid, sqrt(0) == 0; sqrt/cbrt/hypot total. Bounded: powi(x,-n) == powi(x,n).recip() for n <= 3 on the real operators, plus a native ground set up to n = i32::MAX; exact points sqrt(+-0), cbrt(+-0). NOT decided: every accuracy bound. The accuracy clauses are additionally evaluated on a finite mpmath reference sample (180 stratified operands, exact comparison in Fix arithmetic): a sample, reported as ground-evaluated, not a proof.",
        "note": TB + "Operators are value-independent stubs in the totality obligations. Two defects found and repaired (powi(x, i32::MIN) overflow; cbrt(0) == NaN).",
        "technique": T_MIX,
    },
    "C14": {
        "text": "Proved for every valid argument: exp, exp2, exp_m1, powf never panic (range reduction through the real TwoFloat - f64 with leaf contracts must keep the quarter-range assertion and every table index in bounds); exp(x) == 0 for x <= -750, non-finite for x >= 710, exp2(x) == 0 for x <= -1080, non-finite for x >= 1024; powf case table (0^0 invalid, x^0 == 1, 0^y == 0, negative base with non-integer y invalid, integer y gives +-|x|^y). Ground: exp(+-0), exp_m1(0), exp2(k) == 2^k for all 2045 integers k, parity rule of powf on 520 exponents incl. 2^53+1, 2^60+1. NOT decided: every accuracy floor. The accuracy clauses are additionally evaluated on a finite mpmath reference sample (230 stratified operands, exact comparison in Fix arithmetic): a sample, reported as ground-evaluated, not a proof.",
        "note": TB + "CBMC mis-models the f64 remainder used by powf's parity test: that clause is decided natively only. One defect found and repaired (exp panicked on (0.75, -4e-17)).",
        "technique": T_MIX,
    },
    "C15": {
        "text": "Proved for every valid argument: ln, log2, log10, ln_1p, log never panic; ln/log2 of x <= 0 and ln_1p of x <= -1 are invalid; log10(x) == x.ln()/RN2(ln 10) bit for bit (ln an arbitrary fixed function). Ground: ln(1) = log2(1) = log10(1) = ln_1p(0) = 0, log2(2^k) == k for all 1961 integers k in [-1000, 960], log(x,b) == ln x / ln b. NOT decided: every tolerance. The accuracy clauses are additionally evaluated on a finite mpmath reference sample (300 stratified operands, exact comparison in Fix arithmetic): a sample, reported as ground-evaluated, not a proof.",
        "note": TB + "One defect found and repaired (log2(1) returned 1).",
        "technique": T_MIX,
    },
    "C16": {
        "text": "Proved for every argument: sin, cos, tan, sin_cos never panic and an invalid argument gives an invalid result; sin_cos(x) == (sin x, cos x) bit for bit (argument reduction and the two restricted polynomials arbitrary fixed functions: the three quadrant dispatch tables agree). Ground: sin(0), cos(0), tan(0), sin_cos(0). NOT decided: the 2^-66 / 2^-64 / 2^-50 accuracy clauses. The accuracy clauses are additionally evaluated on a finite mpmath reference sample (270 stratified operands, exact comparison in Fix arithmetic): a sample, reported as ground-evaluated, not a proof.",
        "note": TB,
        "technique": T_MIX,
    },
    "C17": {
        "text": "Proved: asin/acos of |x| > 1 or of an invalid x are invalid; atan2 on the axes returns exactly 0, +-pi/2, +-pi following the signs (incl. atan2(+-0, x<0) == +-pi); asin/acos/atan/atan2 total. Ground: asin(0) = atan(0) = acos(1) = 0, asin(+-1), acos(-1) to 2^-100, the tabulated atan(1/2), atan(3/2) are the correctly rounded double-doubles. NOT decided: the accuracy clauses. The accuracy clauses are additionally evaluated on a finite mpmath reference sample (260 stratified operands, exact comparison in Fix arithmetic): a sample, reported as ground-evaluated, not a proof.",
        "note": TB,
        "technique": T_MIX,
    },
    "C18": {
        "text": "Proved: the six hyperbolic functions never panic on valid arguments (exp/ln/sqrt value-independent). Ground: the six exact points; acosh(x<1), atanh(|x|>=1) invalid on 5 sample points. NOT decided: every accuracy clause (including asinh for negative arguments, where executing the code shows cancellation - DESIGN section 7, D7) and the domain rules for all x. The accuracy clauses are additionally evaluated on a finite mpmath reference sample (320 stratified operands, exact comparison in Fix arithmetic): a sample, reported as ground-evaluated, not a proof. The sample exposed the asinh cancellation for negative arguments (repaired in /repo, 784505a).",
        "note": TB + "Weakest claim of the set: only totality is universal.",
        "technique": T_MIX,
    },
    "C19": {
        "text": "Proved for all operand patterns: a % b, a % f, f % b are a - trunc(a/b)*b and %= agrees (C10); rem_euclid(a,b) is r + |b| for a negative remainder r = a % b, else r (operators arbitrary fixed functions). Complete finite check: %, %=, div_euclid, rem_euclid are exact for all 262,656 integer pairs |a|,|b| <= 256 (both f64 spellings) and on 64 pairs below 2^53. NOT decided: the 16*2^-106 tolerance for general operands. The tolerance clause is additionally evaluated exactly on a seeded sample of 500 non-integer pairs with |a/b| <= 2^40 (% , div_euclid, rem_euclid): a sample, not a proof.",
        "note": TB,
        "technique": "contract proof of the structure (Ackermann stubs) + exhaustive native evaluation of a finite operand set",
    },
    "C20": {
        "text": "Proved with the serde feature, mock Deserializer/SeqAccess/MapAccess/Serializer: sequence form: Ok exactly when the input carries a valid (hi, lo) pair, words bit-identical, short sequences rejected; map form, every key sequence of length <= 3 over {hi, lo, other} with arbitrary values: Ok exactly with one hi and one lo (either order) forming a valid pair, words bit-identical, otherwise Err; serialize emits struct TwoFloat {hi, lo} in order, bit-identical - for all f64 pairs. Text: checked natively on 10 structured values x 3 traits x {plain, +, .p} only.",
        "note": TB + "Map length bounded by 3 (unwinding assertion on). The text clauses are statements about core::fmt and f64::from_str: not decided beyond the sample.",
        "technique": "contract proof (Kani/CBMC) with mock serde endpoints; native evaluation of a finite text sample",
    },
}
NOT_CLAIMED = {}

META = {
    "C01": {"undecided_clauses": ["f64/TwoFloat, TwoFloat/TwoFloat, /= TwoFloat, recip, %, div_euclid, rem_euclid validity", "elementary functions validity", "induction over arbitrary call sequences"], "assumed_lemmas": []},
    "C02": {"undecided_clauses": ["new_div: 3*2^-106 bound at full width (rests on the assumed theorem for Alg. 15)"], "assumed_lemmas": []},
    "C03": {"undecided_clauses": ["Iterator::sum == left fold (CBMC fails on the iterator fold)"], "assumed_lemmas": ["error bound 2u^2 of Alg. 4 and 3u^2+13u^3 of Alg. 6 (Joldes-Muller-Popescu 2017, Coq: Muller-Rideau 2022)"]},
    "C04": {"undecided_clauses": [], "assumed_lemmas": ["error bounds of Alg. 9 (2u^2) and Alg. 12 (<= 5u^2)"]},
    "C05": {"undecided_clauses": ["16*2^-106 bound of the long division (f64/TwoFloat, TwoFloat/TwoFloat, /=, recip)", "x/x == 1 for all x (ground sample only)"], "assumed_lemmas": ["error bound 3u^2 of Alg. 15"]},
    "C06": {"undecided_clauses": [], "assumed_lemmas": ["L-lex (lexicographic order of valid pairs == order of exact values): L-bracket proved in thorough + monotonicity + transitivity on the reals (un-mechanised)"]},
    "C08": {"undecided_clauses": [], "assumed_lemmas": ["in quick: the five pair-formula lemmas (proved in thorough)"]},
    "C10": {"undecided_clauses": ["a+b == b+a, a-b == a+(-b) == -(b-a), (-a)*b == -(a*b) for TwoFloat operands", "Iterator::sum == left fold"], "assumed_lemmas": []},
    "C11": {"undecided_clauses": ["correctness of libm::fma's software path and of the platform fma"], "assumed_lemmas": [], "assumed_contracts": ["libm::fma == IEEE fused multiply-add"]},
    "C12": {"undecided_clauses": ["6*2^-106 bound of the angle conversions beyond 'x * correctly rounded factor' (rests on C04's assumed theorem)"], "assumed_lemmas": []},
    "C13": {"undecided_clauses": ["32/16/48*2^-106 and (6|n|+16)*2^-106 accuracy", "powi(x,-n) == powi(x,n).recip() for all n (bounded n <= 3 + ground set)", "sign of powi for negative x beyond the ground set"], "assumed_lemmas": []},
    "C14": {"undecided_clauses": ["every accuracy floor", "parity rule of powf for all integer y (ground set only: CBMC mis-models f64 %)"], "assumed_lemmas": []},
    "C15": {"undecided_clauses": ["every tolerance", "log10 of x <= 0 invalid (follows from ln; ground sample)"], "assumed_lemmas": []},
    "C16": {"undecided_clauses": ["2^-66 / 2^-64 / 2^-50 accuracy"], "assumed_lemmas": []},
    "C17": {"undecided_clauses": ["2^-45 / 2^-43 / 2^-70 / 2^-69 accuracy"], "assumed_lemmas": []},
    "C18": {"undecided_clauses": ["every accuracy clause", "acosh(x<1) / atanh(|x|>=1) invalid for all x (ground sample only)"], "assumed_lemmas": []},
    "C19": {"undecided_clauses": ["16*2^-106*max(|a|,|b|) tolerance and the adjacent-integer proviso for general operands", "div_euclid floor/ceil sense for non-integer operands"], "assumed_lemmas": []},
    "C20": {"undecided_clauses": ["text clauses beyond the native sample (core::fmt / f64::from_str)"], "assumed_lemmas": []},
}
