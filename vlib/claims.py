"""Per-property claim texts for MANIFEST.json (kept next to the obligation table)."""
TB = "Trusted: Kani MIR->goto translation, CBMC float_bv (one NaN), kissat/cvc5. "
CLAIMS = {
    "C07": {
        "text": "Proved for all 2^128 pairs of f64 bit patterns: no_overlap's real body (libm exp2/copysign/fabs compiled from source and verified through) equals Definition 1.4; is_valid and both TryFrom impls proved against the definition modularly over no_overlap's contract, words preserved bit for bit, conversion back returns them, otherwise ConversionError.",
        "note": TB + "No assumed lemma, no bounded stand-in, no precondition.",
    },
    "C06": {
        "text": "Proved for all valid a, b and all f64 c: partial_cmp and < <= > >= == != (TwoFloat/TwoFloat, TwoFloat/f64, f64/TwoFloat) equal the lexicographic order of the words; for ALL 2^256 word patterns: == symmetric, == iff partial_cmp == Some(Equal), any NaN word => unequal and unordered both ways; min/max return an operand, extremal, skipping an invalid operand; abs/is_sign_*/signum/copysign follow the sign of hi. Lemma L-sign (value has the sign of hi; Fix arithmetic) proved in quick; lemma L-bracket (8 one-pair Fix cases) in thorough.",
        "note": TB + "The step 'lexicographic order of valid pairs == order of exact values' (L-lex) is mechanised only as L-bracket (thorough) + monotonicity of neighbours + transitivity on the reals (pen and paper, DESIGN section 3); natively every counterexample is re-judged with exact Fix comparison. no_overlap is replaced by its contract (proved under C07).",
    },
}
NOT_CLAIMED = {}
