#!/usr/bin/env python3
"""Prints the markdown table of seeded changes and the obligations that caught them (from seeded/*/meta.json)."""
import json, os, re
V = os.path.dirname(os.path.dirname(os.path.abspath(__file__)))
print("| seed | property | what the change needs to manifest | caught by (check: obligation) | failing input |")
print("|---|---|---|---|---|")
for d in sorted(os.listdir(os.path.join(V, "seeded"))):
    m = json.load(open(os.path.join(V, "seeded", d, "meta.json")))
    det = m.get("detected_by")
    if not isinstance(det, dict):
        print("| %s | %s | %s | (not run) | |" % (d, m["property"], m["needs_to_manifest"][:160]))
        continue
    obs = []
    nf = True
    for l in det["output"]:
        if l.startswith("VIOLATION"):
            mm = re.search(r"property=(\S+) .*obligation=(\S+)", l)
            if mm:
                obs.append("%s: %s" % (mm.group(1), mm.group(2)))
            if "no-failing-input-found" not in l:
                nf = False
    print("| %s | %s | %s | %s | %s |" % (d, m["property"], m["needs_to_manifest"][:200].replace("|", "/"),
          "<br>".join(obs[:4]) + (" (+%d)" % (len(obs) - 4) if len(obs) > 4 else "") if det["detected"] else "**NOT DETECTED** (exit %s)" % det["exit_codes"],
          "replayed natively" if (det["detected"] and not nf) else ("no-failing-input-found" if det["detected"] else "")))
