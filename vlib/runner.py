#!/usr/bin/env python3
"""Runner of the contract obligations (see /verif/DESIGN.md section 5).

  check <Cxx> [--tier quick|thorough] [--only SUBSTR] [--keep] [-j N]
  check <Cxx> --replay <file>
  check --setup
"""
import hashlib
import json
import os
import random
import re
import shutil
import subprocess
import sys
import time

VERIF = os.path.dirname(os.path.dirname(os.path.abspath(__file__)))
REPO = os.environ.get("VERIF_REPO", "/repo")
SCRATCH_ROOT = os.environ.get("VERIF_SCRATCH", "/var/tmp")
MOD_LINE = "#[cfg(any(kani, verif_replay))] pub mod verif;\n"
# harnesses carry up to ~30 kani::stub attributes; rustc's default macro recursion limit (128) is too small
LIMIT_LINE = '#![cfg_attr(kani, recursion_limit = "1024")]\n'
ENV = dict(os.environ, CARGO_NET_OFFLINE="true", CARGO_TERM_COLOR="never")

sys.path.insert(0, os.path.join(VERIF, "vlib"))
import obligations as OB  # noqa: E402

FEATURES = {
    "default": [],
    "nostd": ["--no-default-features", "--features", "math_funcs"],
    "serde": ["--features", "serde"],
}
# check descriptions that are artefacts of the tool, not of the crate (DESIGN section 2)
FILTER_DESC = [re.compile(r"^floating-point exception$")]
FILTER_DESC_NAN = [re.compile(r"^NaN on ")]
TRUSTED_BASE = [
    "Kani 0.68.0 MIR-to-goto translation",
    "CBMC 6.11.0 float_bv semantics of + - * / fma casts comparisons",
    "SAT/SMT back ends kissat, cadical, cvc5",
    "rustc/LLVM and the host FPU for native replay and ground evaluation",
]


def log(*a):
    print(*a, flush=True)


def sha256_file(p):
    h = hashlib.sha256()
    with open(p, "rb") as f:
        h.update(f.read())
    return h.hexdigest()


def src_hashes(root):
    out = {}
    for d, _, fs in os.walk(os.path.join(root, "src")):
        if os.path.join(root, "src", "verif") in d:
            continue
        for f in fs:
            if f.endswith(".rs"):
                p = os.path.join(d, f)
                out[os.path.relpath(p, root)] = sha256_file(p)
    return out


class Scratch:
    def __init__(self, keep=False):
        self.dir = os.path.join(SCRATCH_ROOT, "verif-%d" % os.getpid())
        self.keep = keep

    def __enter__(self):
        if os.path.exists(self.dir):
            shutil.rmtree(self.dir)
        os.makedirs(self.dir)
        self.crate = os.path.join(self.dir, "crate")
        subprocess.check_call(["rsync", "-a", "--exclude", "target", "--exclude", ".git", REPO + "/", self.crate + "/"])
        self.repo_hashes = src_hashes(REPO)
        lib = os.path.join(self.crate, "src", "lib.rs")
        s = open(lib).read()
        self.lib_before = hashlib.sha256(s.encode()).hexdigest()
        if "pub mod verif;" not in s:
            if not s.endswith("\n"):
                s += "\n"
            s += MOD_LINE
            if "recursion_limit" not in s:
                s = LIMIT_LINE + s
            open(lib, "w").write(s)
        dst = os.path.join(self.crate, "src", "verif")
        if os.path.exists(dst):
            shutil.rmtree(dst)
        shutil.copytree(os.path.join(VERIF, "overlay", "src", "verif"), dst)
        os.makedirs(os.path.join(self.crate, "examples"), exist_ok=True)
        open(os.path.join(self.crate, "examples", "verif_replay.rs"), "w").write(
            "fn main() { twofloat::verif::replay::replay_main(); }\n")
        copy_hashes = src_hashes(self.crate)
        diff = [k for k in self.repo_hashes if k != "src/lib.rs" and copy_hashes.get(k) != self.repo_hashes[k]]
        if diff:
            raise RuntimeError("scratch copy differs from /repo: %s" % diff)
        self.native_bin = None
        return self

    def __exit__(self, *a):
        if not self.keep:
            shutil.rmtree(self.dir, ignore_errors=True)

    def native(self):
        """build (once) and return the native replay binary"""
        if self.native_bin:
            return self.native_bin
        t0 = time.time()
        env = dict(ENV, RUSTFLAGS="--cfg verif_replay -A warnings")
        p = subprocess.run(["cargo", "build", "--offline", "--features", "serde", "--example", "verif_replay", "--target-dir",
                            os.path.join(self.dir, "nt")], cwd=self.crate, env=env,
                           stdout=subprocess.PIPE, stderr=subprocess.STDOUT, text=True)
        if p.returncode != 0:
            raise BuildError("native replay build failed", p.stdout)
        self.native_bin = os.path.join(self.dir, "nt", "debug", "examples", "verif_replay")
        self.native_build_s = time.time() - t0
        return self.native_bin


class BuildError(Exception):
    def __init__(self, msg, out):
        super().__init__(msg)
        self.out = out


CHECK_RE = re.compile(r"^Check (\d+): (.+)\n\t - Status: (\S+)\n\t - Description: \"(.*)\"(?:\n\t - Location: (.*))?$", re.M)


def parse_result(text):
    """-> dict(status, checks=[(id,status,desc,loc)], time)"""
    checks = [(m.group(2), m.group(3), m.group(4).strip('"'), m.group(5) or "") for m in CHECK_RE.finditer(text)]
    tm = re.search(r"Verification Time: ([0-9.]+)s", text)
    fails = [m.group(0) for m in CHECK_RE.finditer(text) if m.group(3) == "FAILURE"]
    i = text.find("SUMMARY:")
    n_declared = len(re.findall(r"^Check \d+: ", text, re.M))
    if n_declared != len(checks):
        # never trust a partially parsed result
        return {"checks": checks, "time": float(tm.group(1)) if tm else None, "status": "no-result",
                "raw_tail": "parser saw %d of %d checks\n" % (len(checks), n_declared) + text[-1500:]}
    res = {"checks": checks, "time": float(tm.group(1)) if tm else None,
           "raw_tail": "\n\n".join(fails[:12]) + "\n\n" + (text[i:] if i >= 0 else text[-1500:])}
    if "CBMC timed out" in text:
        res["status"] = "timeout"
    elif not checks:
        res["status"] = "no-result"
    else:
        res["status"] = "ran"
    return res


def classify(ob, res):
    """-> (verdict, detail) verdict in discharged|refuted|undecided"""
    if res["status"] == "timeout":
        return "undecided", "solver time-out after %ss" % ob["timeout"]
    if res["status"] != "ran":
        return "undecided", "no verifier result (tool failure, out of memory or unsupported construct)"
    filt = list(FILTER_DESC) + (FILTER_DESC_NAN if ob.get("checks") == "default" else [])
    failed, uncovered, undet = [], [], []
    ncheck = 0
    for cid, st, desc, loc in res["checks"]:
        if any(f.search(desc) for f in filt):
            continue
        if ".cover." in cid or cid.endswith(".cover"):
            if st != "SATISFIED":
                uncovered.append(desc)
            continue
        ncheck += 1
        if st == "FAILURE":
            failed.append({"id": cid, "desc": desc, "loc": loc})
        elif st in ("UNDETERMINED", "UNKNOWN"):
            undet.append(desc)
    res["n_checks"] = ncheck
    if failed:
        # unwinding assertion failures mean the bound is too small for the edited code: undecided
        if all("unwinding assertion" in f["desc"] for f in failed):
            return "undecided", "unwinding assertion failed (loop bound exceeded)"
        return "refuted", failed
    if undet:
        return "undecided", "undetermined checks: %s" % undet[:3]
    if uncovered:
        return "undecided", "vacuity guard: cover not satisfied: %s" % uncovered[:3]
    if ncheck == 0:
        return "undecided", "vacuity guard: zero checks generated"
    return "discharged", None


def run_pg(cmd, cwd):
    """run a command in its own process group and kill the whole group afterwards: when Kani's
    harness time-out kills cbmc, the external solver (cvc5/kissat) is orphaned and would keep running"""
    import signal
    p = subprocess.Popen(cmd, cwd=cwd, env=ENV, stdout=subprocess.PIPE, stderr=subprocess.STDOUT, text=True, start_new_session=True)
    try:
        out, _ = p.communicate()
    finally:
        try:
            os.killpg(p.pid, signal.SIGKILL)
        except (ProcessLookupError, PermissionError):
            pass
    return p.returncode, out


def kani_cmd(sc, feat, harnesses, checks, jobs, timeout, extra=()):
    cmd = ["cargo", "kani", "-Z", "function-contracts", "-Z", "stubbing", "-Z", "unstable-options"]
    cmd += FEATURES[feat]
    for h in harnesses:
        cmd += ["--harness", "verif::" + h]
    cmd += ["--exact", "--output-format", "terse", "--output-into-files", "--harness-timeout", "%ds" % timeout,
            "--target-dir", os.path.join(sc.dir, "kt-" + feat)]
    if jobs > 1:
        cmd += ["-j", str(jobs)]
    if checks == "nooverflow":
        cmd += ["--no-overflow-checks"]
    cmd += list(extra)
    return cmd


def run_group(sc, feat, checks, obs, jobs):
    """one cargo-kani invocation for obligations sharing features/check flags; per-harness timeouts
    are emulated by batching obligations of similar timeout"""
    results = {}
    # batch by timeout so --harness-timeout fits
    by_to = {}
    for ob in obs:
        # few time-out classes, so that one cargo-kani invocation serves many harnesses
        by_to.setdefault(0, []).append(ob)
    if by_to:
        # one invocation per (features, check flags): the group's largest time-out applies to every harness
        by_to = {max(ob["timeout"] for ob in by_to[0]): by_to[0]}
    for _ in ():
        pass
    outdir = os.path.join(sc.dir, "kt-" + feat, "result_output_dir")
    for to, group in sorted(by_to.items()):
        names = [ob["name"] for ob in group]
        cmd = kani_cmd(sc, feat, names, checks, min(jobs, len(names)), to)
        t0 = time.time()
        rc, pout = run_pg(cmd, sc.crate)
        wall = time.time() - t0
        if "error: could not compile" in pout or re.search(r"^error(\[E\d+\])?:", pout, re.M) and "Checking harness" not in pout:
            raise BuildError("overlay does not compile against this tree (lost anchor or unsupported construct)", pout)
        for ob in group:
            f = os.path.join(outdir, "verif::" + ob["name"])
            if os.path.exists(f):
                txt = open(f).read()
                os.remove(f)
            else:
                txt = ""
            res = parse_result(txt)
            if res["status"] == "no-result":
                res["raw_tail"] = pout[-2000:]
            res["group_wall"] = wall
            results[ob["name"]] = res
    return results


VEC_RE = re.compile(r"^\s*//\s*(.*)\n\s*vec!\[([0-9, ]*)\]", re.M)


def concrete_playback(sc, ob):
    """re-run one refuted harness with concrete playback; -> list of (size, value) or None"""
    cmd = ["cargo", "kani", "-Z", "function-contracts", "-Z", "stubbing", "-Z", "unstable-options",
           "-Z", "concrete-playback", "--concrete-playback", "print"] + FEATURES[ob.get("features", "default")]
    if "cvc5" in ob.get("backend", ""):
        # cvc5 gives Kani no trace: look for a model of the same obligation with a SAT solver, briefly
        cmd += ["--solver", "kissat"]
    cmd += ["--harness", "verif::" + ob["name"], "--exact", "--harness-timeout", "%ds" % min(ob["timeout"], 240 if "cvc5" in ob.get("backend", "") else ob["timeout"]),
            "--target-dir", os.path.join(sc.dir, "kt-" + ob.get("features", "default"))]
    if ob.get("checks", "nooverflow") == "nooverflow":
        cmd += ["--no-overflow-checks"]
    rc, out = run_pg(cmd, sc.crate)
    blocks = out.split("Concrete playback unit test for")[1:]
    # first test that witnesses a failed check (not a cover)
    blocks = [b for b in blocks if "Check for `cover`" not in b] or []
    if not blocks:
        return None, out[-3000:]
    b = blocks[0]
    vecs = []
    for m in re.finditer(r"^\s*vec!\[([0-9, ]*)\],?\s*$", b, re.M):
        bs = [int(x) for x in m.group(1).replace(" ", "").split(",") if x != ""]
        vecs.append((len(bs), int.from_bytes(bytes(bs), "little")))
    return vecs, "Concrete playback unit test for" + b[:3000]


def native_run(sc, name, inputs):
    b = sc.native()
    args = [b, "run", name] + ["%d:%x" % (s, v) for s, v in inputs]
    p = subprocess.run(args, stdout=subprocess.PIPE, stderr=subprocess.PIPE, text=True, timeout=600)
    try:
        return json.loads(p.stdout.strip().splitlines()[-1])
    except Exception:
        return {"status": "native-error", "stdout": p.stdout[-500:], "stderr": p.stderr[-500:], "failures": []}


STD_CFG_ALLOW = {
    ("src/arithmetic.rs", '#[cfg(all(feature = "std", not(all(windows, target_env = "gnu"))))]'),
    ("src/arithmetic.rs", '#[cfg(not(all(feature = "std", not(all(windows, target_env = "gnu")))))]'),
    ("src/lib.rs", '#![cfg_attr(not(feature = "std"), no_std)]'),
    ("src/lib.rs", '#[cfg(feature = "std")]'),
}


def scan_std_cfg(crate):
    """C11 inventory: the only std/target-dependent items outside test modules are the two `fma`
    definitions, the no_std switch and the std::error::Error impl.  -> (ok, detail)"""
    found = set()
    for d, _, fs in os.walk(os.path.join(crate, "src")):
        if os.path.join(crate, "src", "verif") in d:
            continue
        for f in fs:
            if not f.endswith(".rs"):
                continue
            p = os.path.join(d, f)
            txt = open(p).read()
            txt = re.split(r"#\[cfg\((?:all\(feature = \"std\", )?test\)?\)\]\s*mod \w+ \{", txt)[0]
            for line in txt.splitlines():
                t = line.strip()
                if t.startswith("//"):
                    continue
                if ('feature = "std"' in t or "target_env" in t or "target_os" in t or "cfg(windows" in t or "target_arch" in t) and "recursion_limit" not in t and "verif" not in t:
                    if f == "format.rs" and "test" in t:
                        continue
                    found.add((os.path.relpath(p, crate), t))
    extra = found - STD_CFG_ALLOW
    missing = STD_CFG_ALLOW - found
    # the two fma bodies themselves
    a = open(os.path.join(crate, "src", "arithmetic.rs")).read()
    bodies = re.findall(r"fn fma\(x: f64, y: f64, z: f64\) -> f64 \{\s*([^}]*?)\s*\}", a)
    return (not extra and not missing and len(bodies) == 2), {"unexpected": sorted(extra), "missing": sorted(missing), "fma_bodies": bodies}


def load_known():
    p = os.path.join(VERIF, "known_findings.json")
    if os.path.exists(p):
        return json.load(open(p))
    return {"known": [], "fixed": []}


def known_match(known, prop, obname, clauses):
    """-> (matched known entries, clauses not covered by any entry)"""
    hits, uncovered = [], []
    entries = [k for k in known.get("known", []) if k["property"] == prop and k["obligation"] == obname]
    for c in clauses:
        m = [k for k in entries if not k.get("clause") or k["clause"] in c]
        if m:
            for k in m:
                if k not in hits:
                    hits.append(k)
        else:
            uncovered.append(c)
    return hits, uncovered


def write_replay(prop, ob, payload):
    rd = os.environ.get("VERIF_REPLAY_DIR", os.path.join(VERIF, "replays"))
    os.makedirs(rd, exist_ok=True)
    h = hashlib.sha256(json.dumps(payload, sort_keys=True).encode()).hexdigest()[:10]
    path = os.path.join(rd, "%s-%s-%s.json" % (prop, ob["name"].replace("::", "."), h))
    json.dump(payload, open(path, "w"), indent=1)
    return path


def stubs_of(obname):
    """stubs used by a harness, parsed from the overlay text"""
    mod, fn = obname.rsplit("::", 1)
    p = os.path.join(VERIF, "overlay", "src", "verif", mod.replace("::", "/") + ".rs")
    if not os.path.exists(p):
        return []
    s = open(p).read()
    m = re.search(r"((?:\s*(?:#\[[^\n]*\]|///[^\n]*)\n?)*)\s*(?:pub )?fn %s\(" % re.escape(fn), s)
    if not m:
        return []
    return [a.strip() + " -> " + b.strip() for a, b in re.findall(r"kani::stub\(([^,]+),\s*([^)]+)\)", m.group(1))]


def run_check(prop, tier, only=None, keep=False, jobs=None):
    t_start = time.time()
    seed = int(os.environ.get("VERIF_SEED", "0") or 0)
    jobs = jobs or int(os.environ.get("VERIF_JOBS", "0") or 0) or (os.cpu_count() or 4)
    obs = OB.select(prop, tier, seed)
    if only:
        obs = [o for o in obs if only in o["name"]]
    expected = len(obs)
    if expected == 0:
        log("UNDECIDED property=%s no obligations selected" % prop)
        return 2
    known = load_known()
    rows = []
    violations = []
    known_hits = []
    undecided = []
    evidence_extra = {}
    try:
        with Scratch(keep=keep) as sc:
            # ---- solver obligations
            groups = {}
            for ob in obs:
                if ob.get("native") or ob.get("scan"):
                    continue
                # miters (cvc5) get their own invocation: they close in seconds or not at all, and a refuted-by-time-out
                # miter must reach the failing-input search quickly instead of waiting for the slowest leaf obligation
                groups.setdefault((ob.get("features", "default"), ob.get("checks", "nooverflow"), "cvc5" in ob.get("backend", "")), []).append(ob)
            results = {}
            for (feat, checks, _is_miter), g in sorted(groups.items(), key=lambda kv: (not kv[0][2], kv[0][0], kv[0][1])):
                results.update(run_group(sc, feat, checks, g, jobs))
            for ob in obs:
                row = {"obligation": ob["name"], "class": ob["cls"], "tier": ob["tier"], "functions": ob.get("functions", []),
                       "backend": ob.get("backend", "cbmc+kissat"), "stubs": stubs_of(ob["name"])}
                if ob.get("bound"):
                    row["bound"] = ob["bound"]
                if ob.get("scan"):
                    ok, detail = scan_std_cfg(sc.crate)
                    row["backend"] = "source inventory (runner)"
                    row["seconds"] = 0.0
                    row["detail"] = detail
                    if ok:
                        row["verdict"] = "ground-evaluated"
                    else:
                        row["verdict"] = "undecided"
                        undecided.append((ob["name"], "inventory of std/target-dependent items changed: %s" % detail))
                    rows.append(row)
                    continue
                if ob.get("native"):
                    r = native_run(sc, ob["name"], [])
                    row["backend"] = "native evaluation of the real code (ground)"
                    row["seconds"] = 0.0
                    if r["status"] == "pass":
                        row["verdict"] = "ground-evaluated"
                    elif r["status"].startswith("fail"):
                        row["verdict"] = "refuted"
                        row["failed"] = r["failures"]
                        handle_refuted(sc, prop, ob, row, [{"desc": f} for f in r["failures"]], known, violations, known_hits,
                                       inputs=[], native=r)
                    else:
                        row["verdict"] = "undecided"
                        row["detail"] = "native status %s" % r["status"]
                        undecided.append((ob["name"], row["detail"]))
                    rows.append(row)
                    continue
                res = results.get(ob["name"], {"status": "no-result", "checks": [], "raw_tail": ""})
                verdict, detail = classify(ob, res)
                row["seconds"] = res.get("time")
                row["checks"] = res.get("n_checks", 0)
                if ob.get("expect") == "refuted":  # canary: must be refuted
                    if verdict == "refuted":
                        row["verdict"] = "canary-refuted-as-expected"
                    else:
                        row["verdict"] = "undecided"
                        row["detail"] = "canary was not refuted (%s): the machinery cannot see violations" % verdict
                        undecided.append((ob["name"], row["detail"]))
                    rows.append(row)
                    continue
                row["verdict"] = verdict
                if verdict == "refuted":
                    row["failed"] = [f["desc"] for f in detail]
                    handle_refuted(sc, prop, ob, row, detail, known, violations, known_hits, raw=res.get("raw_tail", ""))
                elif verdict == "undecided":
                    row["detail"] = detail
                    # an obligation that does not close any more (time-out) may hide a violation: look for a failing
                    # input with a SAT solver on the same harness and with the witness search; only a model that
                    # violates the clause natively (real code, Layer 1) turns this into a violation
                    found = False
                    if res.get("status") == "timeout" and (ob.get("witness") or "cvc5" in ob.get("backend", "")) and not ob.get("expect"):
                        before = len(violations)
                        handle_refuted(sc, prop, ob, row, [{"desc": "obligation no longer closes (%s)" % detail}], known, violations, known_hits,
                                       raw=res.get("raw_tail", ""), only_if_reproduced=True)
                        found = len(violations) > before
                    if found:
                        row["verdict"] = "refuted"
                        row["failed"] = ["failing input found after a time-out (see replay)"]
                    else:
                        undecided.append((ob["name"], detail))
                rows.append(row)
            evidence_extra["source_sha256"] = sc.repo_hashes
            evidence_extra["scratch"] = "verbatim copy of /repo working tree + one cfg-guarded `pub mod verif;` line in src/lib.rs + overlay/src/verif"
    except BuildError as e:
        log("UNDECIDED property=%s reason=%s" % (prop, e))
        log(e.out[-3000:])
        write_evidence(prop, tier, seed, rows, expected, time.time() - t_start, evidence_extra, note="build failure: %s" % e)
        return 2
    wall = time.time() - t_start
    write_evidence(prop, tier, seed, rows, expected, wall, evidence_extra)
    for k in known_hits:
        log("KNOWN-FINDING: property=%s %s" % (prop, k))
    n_dis = sum(1 for r in rows if r["verdict"] == "discharged")
    log("SUMMARY property=%s tier=%s obligations=%d discharged=%d ground=%d bounded-discharged=%d refuted=%d undecided=%d wall=%.0fs" % (
        prop, tier, len(rows), sum(1 for r in rows if r["verdict"] == "discharged" and r["class"] != "bounded"),
        sum(1 for r in rows if r["verdict"] == "ground-evaluated"),
        sum(1 for r in rows if r["verdict"] == "discharged" and r["class"] == "bounded"),
        sum(1 for r in rows if r["verdict"] == "refuted"), len(undecided), wall))
    if violations:
        for v in violations:
            log(v)
        return 1
    if undecided:
        for n, d in undecided:
            log("UNDECIDED property=%s obligation=%s reason=%s" % (prop, n, d))
        return 2
    if len(rows) != expected or n_dis + sum(1 for r in rows if r["verdict"] in ("ground-evaluated", "canary-refuted-as-expected", "refuted", "known-finding")) != expected:
        log("UNDECIDED property=%s obligation count mismatch" % prop)
        return 2
    return 0


def handle_refuted(sc, prop, ob, row, failed, known, violations, known_hits, raw="", inputs=None, native=None, only_if_reproduced=False):
    clauses = [f["desc"] for f in failed]
    payload = {"property": prop, "obligation": ob["name"], "functions": ob.get("functions", []), "class": ob["cls"],
               "failed_clauses": clauses, "features": ob.get("features", "default")}
    pb_out = ""
    if inputs is None:
        try:
            inputs, pb_out = concrete_playback(sc, ob)
        except Exception as e:  # playback is best effort
            inputs, pb_out = None, "playback error: %s" % e
    if inputs is not None and native is None and not ob.get("no_native"):
        try:
            native = native_run(sc, ob["name"], inputs)
        except BuildError as e:
            native = {"status": "native-build-failed", "failures": [], "detail": e.out[-800:]}
        except Exception as e:
            native = {"status": "native-error", "failures": [], "detail": str(e)}
    reproduced0 = bool(native and native.get("status", "").startswith("fail"))
    if not reproduced0 and ob.get("witness"):
        # witness search: the stated bound itself on the real (un-stubbed) code over a bounded domain - used only to
        # find a failing input for an obligation that is already refuted; a model is replayed natively (Layer 1)
        wob = next((o for o in OB.ALL if o["name"] == ob["witness"]), None)
        if wob is not None:
            try:
                wres = run_group(sc, wob.get("features", "default"), wob.get("checks", "nooverflow"), [wob], 1).get(wob["name"])
                wverdict, _ = classify(wob, wres)
                payload["witness_search"] = {"obligation": wob["name"], "bound": wob.get("bound"), "verdict": wverdict, "seconds": wres.get("time")}
                if wverdict == "refuted":
                    winputs, wout = concrete_playback(sc, wob)
                    if winputs is not None:
                        wn = native_run(sc, wob["name"], winputs)
                        payload["witness_search"]["native"] = wn
                        if wn.get("status", "").startswith("fail"):
                            inputs, native = winputs, wn
                            payload["replay_obligation"] = wob["name"]
                            pb_out = (pb_out or "") + "\n--- witness search playback ---\n" + wout[-1500:]
            except Exception as e:  # best effort
                payload["witness_search"] = {"obligation": ob["witness"], "error": str(e)}
    payload["inputs"] = ["%d:%x" % (s, v) for s, v in (inputs or [])]
    payload["native"] = native
    payload["verifier_output"] = (raw or "")[-2500:] + ("\n--- playback ---\n" + pb_out[-1500:] if pb_out else "")
    reproduced = bool(native and native.get("status", "").startswith("fail"))
    payload["reproduced_natively"] = reproduced
    if reproduced:
        payload["native_failed_clauses"] = native["failures"]
    row["reproduced_natively"] = reproduced
    all_clauses = list(dict.fromkeys(clauses + (native["failures"] if reproduced else [])))
    hits, uncovered = known_match(known, prop, ob["name"], all_clauses)
    for km in hits:
        known_hits.append("%s obligation=%s %s" % (km.get("what", ""), ob["name"], km.get("input", "")))
    if hits and not uncovered:
        row["verdict"] = "known-finding"
        return
    if hits:
        payload["failed_clauses"] = uncovered
        clauses = [c for c in clauses if c in uncovered] or uncovered
        if reproduced:
            native = dict(native, failures=[c for c in native["failures"] if c in uncovered] or uncovered)
            payload["native_failed_clauses"] = native["failures"]
    if only_if_reproduced and not reproduced:
        return
    path = write_replay(prop, ob, payload)
    row["replay"] = path
    if reproduced:
        violations.append("VIOLATION property=%s replay=%s obligation=%s clause=%r" % (prop, path, ob["name"], native["failures"][0]))
    else:
        violations.append("VIOLATION property=%s replay=%s obligation=%s clause=%r no-failing-input-found" % (prop, path, ob["name"], clauses[0]))


EVIDENCE_DIR = os.environ.get("VERIF_EVIDENCE_DIR", os.path.join(VERIF, "evidence"))
REPLAY_DIR = os.environ.get("VERIF_REPLAY_DIR", os.path.join(VERIF, "replays"))


def write_evidence(prop, tier, seed, rows, expected, wall, extra, note=None):
    os.makedirs(EVIDENCE_DIR, exist_ok=True)
    proof_rows = [r for r in rows if r["class"] not in ("bounded", "ground", "canary")]
    n_ob = len(proof_rows)
    n_dis = sum(1 for r in proof_rows if r["verdict"] == "discharged")
    bounded = [r for r in rows if r["class"] == "bounded"]
    ground = [r for r in rows if r["class"] == "ground"]
    funcs = sorted({f for r in rows for f in r.get("functions", [])})
    import claims as CL
    meta = dict(OB.PROPERTY_META.get(prop, {}))
    meta.update(CL.META.get(prop, {}))
    if not meta.get("explanation"):
        meta["explanation"] = CL.CLAIMS.get(prop, {}).get("text", "")
    assumptions = list(meta.get("assumptions", [])) + OB.COMMON_ASSUMPTIONS
    stubs_used = sorted({s for r in rows for s in r.get("stubs", [])})
    ev = {
        "property_id": prop, "tier": tier, "seed": seed, "level": "proof",
        "coverage": {
            "obligations": n_ob, "discharged": n_dis,
            "checker_cmd": "cargo kani -Z function-contracts -Z stubbing -Z unstable-options --harness verif::<obligation> --exact [--no-overflow-checks] (solver per harness attribute: kissat / cvc5), on a scratch copy of /repo + overlay; ground obligations: native evaluation through examples/verif_replay",
            "trusted_base": TRUSTED_BASE,
            "functions_under_contract": funcs,
            "solver_seconds_total": round(sum((r.get("seconds") or 0) for r in rows), 1),
            "bounded": [{"obligation": r["obligation"], "bound": r.get("bound"), "verdict": r["verdict"]} for r in bounded],
            "bounded_discharged": sum(1 for r in bounded if r["verdict"] == "discharged"),
            "ground_evaluated": [{"obligation": r["obligation"], "verdict": r["verdict"]} for r in ground],
            "contract_stubs_used": stubs_used,
            "rests_on_obligations_of_other_checks": {k: {"count": len(v), "names": v[:6] + (["..."] if len(v) > 6 else [])} for k, v in OB.rests_on(prop).items()},
            "assumed_lemmas": meta.get("assumed_lemmas", []),
            "assumed_contracts": meta.get("assumed_contracts", []),
            "undecided_clauses": meta.get("undecided_clauses", []),
            "expected_obligations_for_tier": expected,
            "samples": rows,
            "explanation": meta.get("explanation", ""),
        },
        "assumptions": assumptions,
        "wall_s": round(wall, 1),
        "violations": sum(1 for r in rows if r["verdict"] == "refuted"),
    }
    if note:
        ev["coverage"]["note"] = note
    ev["coverage"].update(extra)
    json.dump(ev, open(os.path.join(EVIDENCE_DIR, prop + ".json"), "w"), indent=1)


def do_replay(prop, path):
    payload = json.load(open(path))
    inputs = []
    for t in payload.get("inputs", []):
        s, v = t.split(":")
        inputs.append((int(s), int(v, 16)))
    with Scratch() as sc:
        r = native_run(sc, payload.get("replay_obligation", payload["obligation"]), inputs)
    log(json.dumps(r))
    if r.get("status", "").startswith("fail"):
        log("VIOLATION property=%s replay=%s obligation=%s clause=%r" % (prop, path, payload["obligation"], r["failures"][0]))
        return 1
    if not payload.get("reproduced_natively"):
        log("replay file carries no failing input (no-failing-input-found); verifier output is in the file")
    return 0


def do_setup():
    ok = True
    for tool in ("cargo-kani", "kissat", "cvc5", "cbmc", "rsync"):
        if not shutil.which(tool):
            log("setup: missing tool %s" % tool)
            ok = False
    g = subprocess.run([sys.executable, os.path.join(VERIF, "gen", "gen_consts.py"), "--verify"], stdout=subprocess.PIPE, stderr=subprocess.STDOUT, text=True)
    log(g.stdout.strip().splitlines()[-1] if g.stdout.strip() else "gen_consts --verify: no output")
    if g.returncode != 0:
        log(g.stdout[-1500:])
        ok = False
    with Scratch() as sc:
        b = sc.native()
        p = subprocess.run([b, "selftest", "1000000", "1"], stdout=subprocess.PIPE, stderr=subprocess.PIPE, text=True)
        log(p.stdout.strip())
        if p.returncode != 0:
            log(p.stderr[-2000:])
            ok = False
        names = subprocess.run([b, "list"], stdout=subprocess.PIPE, text=True).stdout.split()
        missing = [o["name"] for o in OB.ALL if not o.get("kani_only") and "twofloat::verif::" + o["name"] not in names]
        if missing:
            log("setup: obligations without a native replay entry: %s" % missing[:10])
            ok = False
    return 0 if ok else 1


def main(argv):
    if "--setup" in argv:
        return do_setup()
    prop = argv[0]
    tier = os.environ.get("VERIF_TIER", "quick")
    only = None
    keep = False
    jobs = None
    i = 1
    while i < len(argv):
        if argv[i] == "--tier":
            tier = argv[i + 1]; i += 2
        elif argv[i] == "--only":
            only = argv[i + 1]; i += 2
        elif argv[i] == "--keep":
            keep = True; i += 1
        elif argv[i] == "-j":
            jobs = int(argv[i + 1]); i += 2
        elif argv[i] == "--replay":
            return do_replay(prop, argv[i + 1])
        else:
            log("unknown argument %s" % argv[i]); return 2
    return run_check(prop, tier, only, keep, jobs)


if __name__ == "__main__":
    sys.exit(main(sys.argv[1:]))
