#!/usr/bin/env python3
"""Regenerates /verif/MANIFEST.json from the per-property claims below."""
import json, os, sys
VERIF = os.path.dirname(os.path.dirname(os.path.abspath(__file__)))
sys.path.insert(0, os.path.join(VERIF, "vlib"))
from claims import CLAIMS, NOT_CLAIMED  # noqa

props = [json.loads(l) for l in open(os.path.join(VERIF, "properties.jsonl"))]
m = {
    "version": 1,
    "setup_cmd": "python3 /verif/vlib/runner.py --setup",
    "hooks": {
        "guard": "cfg(kani) (set only by the Kani compiler) / --cfg verif_replay (set only by the native replay build); the single guarded line `#[cfg(any(kani, verif_replay))] pub mod verif;` and the overlay module are injected into a scratch copy of /repo, never into /repo",
        "enable": "/verif/check copies /repo's working tree to ${VERIF_SCRATCH:-/var/tmp}/verif-<pid>/crate, appends the guarded mod line to the copy's src/lib.rs, copies /verif/overlay/src/verif into it and runs cargo kani / a native example build there",
        "baseline_off_cmd": "cd /repo && cargo test --workspace --no-fail-fast --offline",
        "source_commits": [],
        "add_only": True,
    },
    "engines": [{"name": "kani-contracts", "path": "/verif/check", "serves_properties": sorted(CLAIMS),
                 "kind_free_text": "contract-based deductive verification of the real crate with Kani 0.68 / CBMC 6.11 (bit-precise IEEE-754): pre/post contracts per function, callers checked against callee contract stubs, native replay of counterexamples, ground facts evaluated natively"}],
    "checks": [],
    "notes": "See DESIGN.md. quick = obligations that close in about a minute each; thorough = quick + per-exponent-gap leaf obligations, Fix lemmas, bounded stand-ins. fix: commits in /repo are listed in known_findings.json.",
    "not_applicable": [],
}
for p in props:
    pid = p["id"]
    if pid in CLAIMS:
        c = CLAIMS[pid]
        m["checks"].append({
            "property_id": pid, "quick_cmd": "./check %s --tier quick" % pid, "thorough_cmd": "./check %s --tier thorough" % pid,
            "evidence_file": "/verif/evidence/%s.json" % pid, "replay_cmd_template": "./check %s --replay {path}" % pid,
            "engine": "kani-contracts",
            "level_claimed": {"category": "proof", "text": c["text"], "design_ref": "DESIGN.md section 6, " + pid},
            "level_note": c["note"], "technique": c.get("technique", "contract proof (Kani/CBMC bit-precise), modular contract stubs, native replay of counterexamples"),
        })
    else:
        m["not_applicable"].append({"property_id": pid, "reason": NOT_CLAIMED.get(pid, "check under construction in this session (plan in DESIGN.md section 6); not claimed until its obligations run green on the unchanged tree")})
json.dump(m, open(os.path.join(VERIF, "MANIFEST.json"), "w"), indent=1)
print("MANIFEST.json: %d checks, %d not claimed" % (len(m["checks"]), len(m["not_applicable"])))
