"""Obligation table: one row per harness of the overlay (DESIGN.md section 4).

name      harness path below `twofloat::verif::`
props     properties the obligation serves
tier      quick | thorough   (thorough runs quick + thorough rows)
cls       leaf | modular | miter | lemma | ground | bounded | canary
checks    nooverflow (numeric obligations) | default (panic-freedom: all Kani checks on)
features  default | nostd | serde
timeout   seconds (>= 4x the time measured on the pinned tree, floor 120)
functions crate functions whose contract the obligation proves
native    True: ground obligation, evaluated natively on the real code
"""

ALL = []


def ob(name, props, tier="quick", cls="modular", timeout=240, functions=(), **kw):
    d = dict(name=name, props=list(props) if not isinstance(props, str) else [props], tier=tier, cls=cls,
             timeout=timeout, functions=list(functions), checks=kw.pop("checks", "nooverflow"),
             features=kw.pop("features", "default"))
    d.update(kw)
    ALL.append(d)
    return d


# ------------------------------------------------------------------ C07
ob("c07::no_overlap_def", "C07", cls="leaf", timeout=600, functions=["twofloat::base::no_overlap (= twofloat::no_overlap)"])
ob("c07::lemma_l0_valid_bits", ["C07", "C01", "C06"], cls="lemma", timeout=120)
ob("c07::is_valid_def", "C07", cls="modular", timeout=120, functions=["TwoFloat::is_valid"])
ob("c07::try_from_tuple", "C07", cls="modular", timeout=120, functions=["TryFrom<(f64,f64)> for TwoFloat", "From<TwoFloat> for (f64,f64)", "From<&TwoFloat> for (f64,f64)"])
ob("c07::try_from_array", "C07", cls="modular", timeout=120, functions=["TryFrom<[f64;2]> for TwoFloat", "From<TwoFloat> for [f64;2]", "From<&TwoFloat> for [f64;2]"])

# ------------------------------------------------------------------ C02 (leaves; also carry C01, C03)
def _nm(d):
    return ("m%d" % -d) if d < 0 else ("p%d" % d)


_FTS = ["twofloat::arithmetic::fast_two_sum"]
ob("c02::fts_cases_cover", ["C02", "C01", "C03"], cls="lemma", timeout=120)
ob("c02::add_cases_cover", ["C02", "C01", "C03"], cls="lemma", timeout=120)
ob("c02::exact_cases_are_contract", ["C02", "C01", "C03"], tier="thorough", cls="lemma", timeout=1800)
ob("c02::from_f64_exact", "C02", cls="leaf", timeout=120, functions=["TwoFloat::from_f64", "From<f64> for TwoFloat"])
ob("c02::new_mul_hi", ["C02", "C04"], cls="leaf", timeout=300, functions=["TwoFloat::new_mul"], backend="cbmc+cvc5")
ob("c02::new_mul_valid", ["C02", "C01", "C04"], tier="thorough", cls="leaf", timeout=9000, functions=["TwoFloat::new_mul"])
ob("c02::fts_far", ["C02", "C01", "C03"], cls="leaf", timeout=300, functions=_FTS)
ob("c02::fts_zero", ["C02", "C01", "C03"], cls="leaf", timeout=300, functions=_FTS)
for _d in range(0, 57):
    ob("c02::fts_gap_" + _nm(_d), ["C02", "C01", "C03"], tier="thorough", cls="leaf", timeout=2400, functions=_FTS, gap=_d, family="fts")
for _f in ("new_add", "new_sub"):
    for _s in ("far_p", "far_m", "zero"):
        ob("c02::%s_%s" % (_f, _s), ["C02", "C01", "C03"], cls="leaf", timeout=600, functions=["TwoFloat::" + _f])
    for _d in range(-56, 57):
        ob("c02::%s_gap_%s" % (_f, _nm(_d)), ["C02", "C01", "C03"], tier="thorough", cls="leaf", timeout=4800, functions=["TwoFloat::" + _f], gap=_d, family=_f)

# ------------------------------------------------------------------ C06
_cmp = ["PartialOrd<TwoFloat> for TwoFloat", "PartialEq<TwoFloat> for TwoFloat"]
ob("c06::cmp_tf_tf", "C06", timeout=240, functions=_cmp)
ob("c06::cmp_tf_f64", "C06", timeout=240, functions=["PartialOrd<f64> for TwoFloat", "PartialOrd<TwoFloat> for f64", "PartialEq<f64> for TwoFloat", "PartialEq<TwoFloat> for f64"])
ob("c06::eq_symmetric", "C06", timeout=240, functions=["PartialEq<TwoFloat> for TwoFloat"])
ob("c06::eq_iff_cmp_equal", "C06", timeout=240, functions=_cmp)
ob("c06::nan_unordered", "C06", timeout=240, functions=_cmp)
ob("c06::min_max", "C06", timeout=300, functions=["TwoFloat::min", "TwoFloat::max"])
ob("c06::sign_queries", "C06", timeout=300, functions=["TwoFloat::abs", "TwoFloat::is_sign_positive", "TwoFloat::is_sign_negative", "TwoFloat::signum", "TwoFloat::copysign"])
ob("c06::signum_invalid", "C06", timeout=240, functions=["TwoFloat::signum"])
ob("c06::lemma_sign", "C06", cls="lemma", timeout=300)
for _c in ("p0", "p1", "p2", "p3", "n0", "n1", "n2", "n3"):
    ob("c06::lemma_bracket_" + _c, "C06", tier="thorough", cls="lemma", timeout=5400)

COMMON_ASSUMPTIONS = [
    "Kani/CBMC bit-precise model of IEEE-754 binary64 (+,-,*,/,fma,casts,comparisons) equals the target's; one NaN (payload/sign of NaN not modelled)",
    "solver soundness (kissat, cadical, cvc5)",
    "harness inputs cover the stated domain: every f64 argument is an unconstrained 64-bit pattern unless a vassume! narrows it (listed per obligation in the overlay)",
]

PROPERTY_META = {
    "C07": {
        "explanation": "no_overlap's real body (with libm exp2/copysign/fabs compiled from source) is proved equal to Definition 1.4 for all 2^128 pairs; is_valid and both TryFrom impls are proved against the same definition with no_overlap replaced by its (proved) contract; lemma L0 ties the Layer-2 predicate valid_bits used elsewhere to the definition.",
        "assumptions": [],
        "assumed_lemmas": [],
        "undecided_clauses": [],
    },
}


def select(prop, tier, seed=0):
    """obligations run by `check <prop> --tier <tier>`: the rows owned by the property (first entry of
    props).  Rows that merely serve the property are discharged by their owner's check and are listed
    in the evidence under `rests_on`."""
    rows = [o for o in ALL if o["props"][0] == prop and (tier == "thorough" or o["tier"] == "quick")]
    return rows


def rests_on(prop):
    out = {}
    for o in ALL:
        if prop in o["props"][1:]:
            out.setdefault(o["props"][0], []).append(o["name"])
    return out
