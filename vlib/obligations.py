"""Obligation table: one row per harness of the overlay (DESIGN.md section 4).

name      harness path below `twofloat::verif::`
props     properties the obligation serves
tier      quick | thorough   (thorough runs quick + thorough rows)
cls       leaf | modular | miter | lemma | ground | bounded | canary
checks    nooverflow (numeric obligations) | default (panic-freedom: all Kani checks on)
features  default | nostd | serde
timeout   seconds (>= 4x the time measured on the pinned tree, floor 120)
functions crate functions whose contract the obligation proves
native    True: ground obligation, evaluated natively on the real code
"""

import json
import os
import random

ALL = []
try:
    TIMINGS = json.load(open(os.path.join(os.path.dirname(os.path.abspath(__file__)), "timings.json")))["seconds"]
except Exception:
    TIMINGS = {}


def ob(name, props, tier="quick", cls="modular", timeout=240, functions=(), **kw):
    d = dict(name=name, props=list(props) if not isinstance(props, str) else [props], tier=tier, cls=cls,
             timeout=timeout, functions=list(functions), checks=kw.pop("checks", "nooverflow"),
             features=kw.pop("features", "default"))
    d.update(kw)
    if name in TIMINGS:
        d["measured_s"] = TIMINGS[name]
        d["timeout"] = int(max(300, min(5 * TIMINGS[name], 14400), d["timeout"] if TIMINGS[name] * 3 < d["timeout"] else 0))
    ALL.append(d)
    return d


# ------------------------------------------------------------------ C07
ob("c07::no_overlap_def", "C07", cls="leaf", timeout=600, functions=["twofloat::base::no_overlap (= twofloat::no_overlap)"])
ob("c07::canary_accepts_everything", "C07", cls="canary", timeout=300, expect="refuted")
ob("c07::lemma_l0_valid_bits", ["C07", "C01", "C06"], cls="lemma", timeout=120)
ob("c07::is_valid_def", "C07", cls="modular", timeout=120, functions=["TwoFloat::is_valid"])
ob("c07::try_from_tuple", "C07", cls="modular", timeout=120, functions=["TryFrom<(f64,f64)> for TwoFloat", "From<TwoFloat> for (f64,f64)", "From<&TwoFloat> for (f64,f64)"])
ob("c07::try_from_array", "C07", cls="modular", timeout=120, functions=["TryFrom<[f64;2]> for TwoFloat", "From<TwoFloat> for [f64;2]", "From<&TwoFloat> for [f64;2]"])

# ------------------------------------------------------------------ C01 (operator bodies, modular)
_ADD = {"valid_add_tf_f64": "Add<&f64> for &TwoFloat", "valid_add_f64_tf": "Add<&TwoFloat> for &f64", "valid_sub_tf_f64": "Sub<&f64> for &TwoFloat",
        "valid_sub_f64_tf": "Sub<&TwoFloat> for &f64", "valid_add_assign_f64": "AddAssign<&f64> for TwoFloat", "valid_sub_assign_f64": "SubAssign<&f64> for TwoFloat",
        "valid_add_tf_tf": "Add<&TwoFloat> for &TwoFloat", "valid_sub_tf_tf": "Sub<&TwoFloat> for &TwoFloat", "valid_add_assign_tf": "AddAssign<&TwoFloat> for TwoFloat",
        "valid_sub_assign_tf": "SubAssign<&TwoFloat> for TwoFloat"}
for _n, _f in _ADD.items():
    ob("c01::" + _n, "C01", timeout=900, functions=[_f])
_MUL = {"valid_mul_tf_f64": "Mul<&f64> for &TwoFloat", "valid_mul_f64_tf": "Mul<&TwoFloat> for &f64", "valid_mul_assign_f64": "MulAssign<&f64> for TwoFloat",
        "valid_mul_tf_tf": "Mul<&TwoFloat> for &TwoFloat", "valid_mul_assign_tf": "MulAssign<&TwoFloat> for TwoFloat", "valid_to_degrees": "TwoFloat::to_degrees",
        "valid_to_radians": "TwoFloat::to_radians", "valid_div_tf_f64": "Div<&f64> for &TwoFloat", "valid_div_assign_f64": "DivAssign<&f64> for TwoFloat",
        "valid_new_div": "TwoFloat::new_div"}
for _n, _f in _MUL.items():
    ob("c01::" + _n, "C01", timeout=900, functions=[_f])
ob("c01::valid_neg", "C01", timeout=120, functions=["Neg for TwoFloat", "Neg for &TwoFloat"])

# ------------------------------------------------------------------ C03
_A4 = {"alg4_add_tf_f64": "Add<&f64> for &TwoFloat", "alg4_add_f64_tf": "Add<&TwoFloat> for &f64", "alg4_sub_tf_f64": "Sub<&f64> for &TwoFloat",
       "alg4_sub_f64_tf": "Sub<&TwoFloat> for &f64", "alg4_add_assign_f64": "AddAssign<&f64> for TwoFloat", "alg4_sub_assign_f64": "SubAssign<&f64> for TwoFloat",
       "alg6_add_tf_tf": "Add<&TwoFloat> for &TwoFloat", "alg6_sub_tf_tf": "Sub<&TwoFloat> for &TwoFloat", "alg6_add_assign_tf": "AddAssign<&TwoFloat> for TwoFloat",
       "alg6_sub_assign_tf": "SubAssign<&TwoFloat> for TwoFloat"}
for _n, _f in _A4.items():
    ob("c03::" + _n, "C03", cls="miter", timeout=300, functions=[_f], backend="cbmc+cvc5", witness="c03::bound_" + _n.split("_", 1)[1])
_WIT = {"alg4_add_tf_f64": "bound_add_tf_f64", "alg4_add_f64_tf": "bound_add_f64_tf", "alg4_sub_tf_f64": "bound_sub_tf_f64", "alg4_sub_f64_tf": "bound_sub_f64_tf",
        "alg4_add_assign_f64": "bound_add_assign_f64", "alg4_sub_assign_f64": "bound_sub_assign_f64", "alg6_add_tf_tf": "bound_add_tf_tf", "alg6_sub_tf_tf": "bound_sub_tf_tf",
        "alg6_add_assign_tf": "bound_add_assign_tf", "alg6_sub_assign_tf": "bound_sub_assign_tf"}
for _n, _w in _WIT.items():
    ob("c03::" + _w, "C03", tier="witness", cls="bounded", timeout=420, functions=[_A4[_n]],
       bound={"significand_bits": 12, "high_words": "[2^-30, 2^30]", "low_words": "0 or >= 2^-140"})
for _n in ("add_tf_tf", "sub_tf_tf", "add_tf_f64", "add_f64_tf", "sub_tf_f64", "sub_f64_tf", "add_assign", "sub_assign"):
    ob("c03::zero_sum_" + _n, "C03", timeout=600, functions=["Add/Sub/AddAssign/SubAssign bodies (zero-sum clause)"])

# ------------------------------------------------------------------ C04 / C05 (f64 divisor)
for _n, _f in {"alg9_mul_tf_f64": "Mul<&f64> for &TwoFloat", "alg9_mul_f64_tf": "Mul<&TwoFloat> for &f64", "alg9_mul_assign_f64": "MulAssign<&f64> for TwoFloat",
               "alg12_mul_tf_tf": "Mul<&TwoFloat> for &TwoFloat", "alg12_mul_assign_tf": "MulAssign<&TwoFloat> for TwoFloat"}.items():
    ob("c04::" + _n, ["C04", "C12", "C11"], cls="miter", timeout=300, functions=[_f], backend="cbmc+cvc5", share=_n.startswith("alg12"), witness="c04::bound_" + _n.split("_", 1)[1])
    ob("c04::bound_" + _n.split("_", 1)[1], "C04", tier="witness", cls="bounded", timeout=420, functions=[_f],
       bound={"significand_bits": 12, "high_words": "[2^-30, 2^30]", "low_words": "0 or >= 2^-90"})
for _n, _f in {"alg15_div_tf_f64": "Div<&f64> for &TwoFloat", "alg15_div_assign_f64": "DivAssign<&f64> for TwoFloat", "alg15_new_div": "TwoFloat::new_div"}.items():
    ob("c04::" + _n, ["C05", "C02"], cls="miter", timeout=300, functions=[_f], backend="cbmc+cvc5", share=True,
       witness=("c04::witness_" + _n.split("_", 1)[1]) if _n != "alg15_new_div" else None)
for _n in ("div_tf_f64", "div_assign_f64"):
    ob("c04::witness_" + _n, "C05", tier="witness", cls="bounded", timeout=420, functions=["Algorithm 15 miter on the bounded domain (witness search)"],
       bound={"significand_bits": 12, "high_words": "[2^-30, 2^30]", "low_words": "0 or >= 2^-90"})
ob("c04::mul_zero_factor_f64", "C04", timeout=900, functions=["Mul/MulAssign bodies (zero factor)"])
ob("c04::mul_zero_factor_tf", "C04", timeout=900, functions=["Mul/MulAssign bodies (zero factor)"])
for _n in ("mul_by_one_f64", "mul_by_minus_one_f64", "mul_by_one_tf", "mul_one_tf_by_x", "mul_by_minus_one_tf"):
    ob("c04::" + _n, "C04", timeout=1500, functions=["Mul/MulAssign bodies (x * +-1)"])
ob("c04::agreement::fma_model_agreement", ["C04", "C05", "C11", "C01", "C02"], cls="ground", timeout=300)
ob("c04::mul_pow2_exact", "C04", timeout=1200, functions=["Mul bodies (x * 2^k)"])

for _k in ("add", "sub", "rsub"):
    for _d in list(range(-60, 61)):
        ob("c03::acc4_%s_gap_%s" % (_k, ("m%d" % -_d) if _d < 0 else ("p%d" % _d)), "C03", tier="rotated", cls="leaf", timeout=5400,
           functions=["Algorithm 4 error bound (x %s y) per exponent gap" % {"add": "+", "sub": "-", "rsub": "reversed -"}[_k]], family="acc4_" + _k, gap=_d)
    for _s in ("far_p", "far_m"):
        ob("c03::acc4_%s_%s" % (_k, _s), "C03", tier="rotated", cls="leaf", timeout=9000, functions=["Algorithm 4 error bound, far case"], family="acc4_" + _k, gap=1000 if _s == "far_p" else -1000)

for _g in list(range(53, 113)) + [1000]:
    ob("c04::acc9_" + ("far" if _g == 1000 else "gap_%d" % _g), "C04", tier="rotated", cls="leaf", timeout=5400,
       functions=["Algorithm 9 error bound (TwoFloat * f64) per gap between the multiplicand's words"], family="acc9", gap=_g)
ob("c04::acc9_cases_cover", "C04", tier="thorough", cls="lemma", timeout=300)

# ------------------------------------------------------------------ C02 (leaves; also carry C01, C03)
def _nm(d):
    return ("m%d" % -d) if d < 0 else ("p%d" % d)


_FTS = ["twofloat::arithmetic::fast_two_sum"]
ob("c02::fts_cases_cover", ["C02", "C01", "C03"], cls="lemma", timeout=120)
ob("c02::add_cases_cover", ["C02", "C01", "C03"], cls="lemma", timeout=120)
ob("c02::exact_cases_are_contract", ["C02", "C01", "C03"], tier="thorough", cls="lemma", timeout=1800)
ob("c02::canary_new_add_lo_zero", "C02", cls="canary", timeout=300, expect="refuted")
ob("c02::from_f64_exact", "C02", cls="leaf", timeout=120, functions=["TwoFloat::from_f64", "From<f64> for TwoFloat"])
ob("c02::new_mul_hi", ["C02", "C04"], cls="leaf", timeout=300, functions=["TwoFloat::new_mul"], backend="cbmc+cvc5")
ob("c02::new_mul_is_two_prod", ["C02", "C04"], cls="miter", timeout=300, functions=["TwoFloat::new_mul"], backend="cbmc+cvc5", share=True)
ob("c02::new_mul_exact_full", ["C02", "C04"], cls="leaf", timeout=1800, functions=["TwoFloat::new_mul"], share=True)
ob("c02::new_mul_exact_b31", ["C02", "C04"], tier="thorough", cls="bounded", timeout=1800, functions=["TwoFloat::new_mul"],
   bound={"significand_bits": 31, "exponents": "within 100 binades of 1"})
ob("c02::new_mul_exact_b53", ["C02", "C04"], tier="thorough", cls="bounded", timeout=3600, functions=["TwoFloat::new_mul"],
   bound={"significand_bits": "53 (full width)", "exponents": "both operands within 100 binades of 1"})
ob("c02::new_mul_valid", ["C02", "C01", "C04"], tier="thorough", cls="leaf", timeout=9000, functions=["TwoFloat::new_mul"])
ob("c02::fts_far", ["C02", "C01", "C03"], cls="leaf", timeout=300, functions=_FTS)
ob("c02::fts_zero", ["C02", "C01", "C03"], cls="leaf", timeout=300, functions=_FTS)
for _d in range(0, 57):
    ob("c02::fts_gap_" + _nm(_d), ["C02", "C01", "C03"], tier="thorough", cls="leaf", timeout=2400, functions=_FTS, gap=_d, family="fts")
for _f in ("new_add", "new_sub"):
    for _s in ("far_p", "far_m", "zero"):
        ob("c02::%s_%s" % (_f, _s), ["C02", "C01", "C03"], cls="leaf", timeout=600, functions=["TwoFloat::" + _f])
    for _d in range(-56, 57):
        ob("c02::%s_gap_%s" % (_f, _nm(_d)), ["C02", "C01", "C03"], tier="thorough", cls="leaf", timeout=4800, functions=["TwoFloat::" + _f], gap=_d, family=_f)

# ------------------------------------------------------------------ C06
_cmp = ["PartialOrd<TwoFloat> for TwoFloat", "PartialEq<TwoFloat> for TwoFloat"]
ob("c06::cmp_tf_tf", "C06", timeout=240, functions=_cmp)
ob("c06::cmp_tf_f64", "C06", timeout=240, functions=["PartialOrd<f64> for TwoFloat", "PartialOrd<TwoFloat> for f64", "PartialEq<f64> for TwoFloat", "PartialEq<TwoFloat> for f64"])
ob("c06::eq_symmetric", "C06", timeout=240, functions=["PartialEq<TwoFloat> for TwoFloat"])
ob("c06::eq_iff_cmp_equal", "C06", timeout=240, functions=_cmp)
ob("c06::nan_unordered", "C06", timeout=240, functions=_cmp)
ob("c06::min_max", "C06", timeout=300, functions=["TwoFloat::min", "TwoFloat::max"])
ob("c06::sign_queries", "C06", timeout=300, functions=["TwoFloat::abs", "TwoFloat::is_sign_positive", "TwoFloat::is_sign_negative", "TwoFloat::signum", "TwoFloat::copysign"])
ob("c06::signum_invalid", "C06", timeout=240, functions=["TwoFloat::signum"])
ob("c06::lemma_sign", "C06", cls="lemma", timeout=300)
ob("c06::lemma_mono_neighbours", "C06", cls="lemma", timeout=300)
for _c in ("p0", "p1", "p2", "p3", "n0", "n1", "n2", "n3"):
    ob("c06::lemma_bracket_" + _c, "C06", tier="thorough", cls="lemma", timeout=5400)

# ------------------------------------------------------------------ C08
_R = {"floor_exact": "TwoFloat::floor", "ceil_exact": "TwoFloat::ceil", "trunc_exact": "TwoFloat::trunc", "round_exact_int_hi": "TwoFloat::round",
      "round_exact_frac_hi": "TwoFloat::round", "fract_exact_int_hi": "TwoFloat::fract", "fract_exact_frac_hi": "TwoFloat::fract"}
for _n, _f in _R.items():
    ob("c08::" + _n, ["C08", "C01"], timeout=1500, functions=[_f], share=_n in ("floor_exact", "ceil_exact", "trunc_exact"))
ob("c08::lemma_libm", "C08", cls="lemma", timeout=300, functions=["libm::floor", "libm::ceil", "libm::trunc", "libm::round", "libm::modf"])
for _n in ("floor", "ceil", "trunc", "round", "fract"):
    ob("c08::lemma_%s_pair" % _n, "C08", tier="thorough", cls="lemma", timeout=7200)

# ------------------------------------------------------------------ C09
for _t in ("i8", "i16", "i32", "u8", "u16", "u32", "i64", "u64", "i128", "u128"):
    _big = _t in ("i64", "u64", "i128", "u128")
    _wide = _t in ("i128", "u128")
    ob("c09::from_" + _t, ["C09", "C01"], cls="leaf", tier="thorough" if _wide else "quick", timeout=3600 if _wide else 900, functions=["From<%s> for TwoFloat" % _t], share=not _wide)
    if _big:
        ob("c09::from_%s_valid" % _t, ["C09", "C01"], cls="leaf", timeout=900, functions=["From<%s> for TwoFloat" % _t], share=True)
    ob("c09::try_" + _t, "C09", tier="thorough" if _big else "quick", timeout=3600 if _big else 900, functions=["TryFrom<TwoFloat> for " + _t, "TryFrom<&TwoFloat> for " + _t])
    ob("c09::nonfinite_" + _t, "C09", timeout=300, functions=["TryFrom<TwoFloat> for " + _t])
    if _t not in ("i128", "u128"):
        ob("c09::roundtrip_" + _t, "C09", timeout=300, functions=["From<%s> for TwoFloat" % _t, "TryFrom<TwoFloat> for " + _t])
ob("c09::float_conversions", "C09", cls="leaf", timeout=120, functions=["From<TwoFloat> for f64", "From<TwoFloat> for f32", "From<f32> for TwoFloat"])
ob("c09::to_primitive_routes", "C09", cls="miter", timeout=900, functions=["ToPrimitive for TwoFloat"])
ob("c09::from_primitive_routes", "C09", cls="miter", timeout=300, functions=["FromPrimitive for TwoFloat"])
ob("c09::numcast_i64_exact", "C09", timeout=600, functions=["NumCast for TwoFloat"])

# ------------------------------------------------------------------ C10
_C10 = ['forms_add_tf_f64_h', 'forms_add_tf_f64_w', 'forms_add_f64_tf_h', 'forms_add_f64_tf_w', 'forms_add_tf_tf_h', 'forms_add_tf_tf_w', 'forms_sub_tf_f64_h', 'forms_sub_tf_f64_w', 'forms_sub_f64_tf_h', 'forms_sub_f64_tf_w', 'forms_sub_tf_tf_h', 'forms_sub_tf_tf_w', 'forms_mul_tf_f64_h', 'forms_mul_tf_f64_w', 'forms_mul_f64_tf_h', 'forms_mul_f64_tf_w', 'forms_mul_tf_tf_h', 'forms_mul_tf_tf_w', 'forms_div_tf_f64_h', 'forms_div_tf_f64_w', 'forms_div_f64_tf_h', 'forms_div_f64_tf_w', 'forms_div_tf_tf_h', 'forms_div_tf_tf_w', 'forms_rem_tf_f64_h', 'forms_rem_f64_tf_h', 'forms_rem_tf_tf_h', 'neg_forms', 'commute_tf_f64', 'sub_is_add_neg_tf_tf', 'sub_is_add_neg_tf_f64', 'add_commutes_tf_tf', 'mul_sign_symmetry', 'sum_is_left_fold', 'deleg_float_exp', 'deleg_float_exp2', 'deleg_float_exp_m1', 'deleg_float_ln', 'deleg_float_ln_1p', 'deleg_float_log2', 'deleg_float_log10', 'deleg_float_sqrt', 'deleg_float_cbrt', 'deleg_float_sin', 'deleg_float_cos', 'deleg_float_tan', 'deleg_float_asin', 'deleg_float_acos', 'deleg_float_atan', 'deleg_float_sinh', 'deleg_float_cosh', 'deleg_float_tanh', 'deleg_float_asinh', 'deleg_float_acosh', 'deleg_float_atanh', 'deleg_float_powf', 'deleg_float_log', 'deleg_float_hypot', 'deleg_float_atan2', 'deleg_float_sin_cos', 'deleg_powi', 'deleg_recip_inv', 'deleg_pow_i8', 'deleg_pow_i16', 'deleg_pow_u8', 'deleg_pow_u16', 'deleg_pow_tf', 'deleg_pow_f64', 'deleg_float_floor', 'deleg_float_ceil', 'deleg_float_round', 'deleg_float_trunc', 'deleg_float_fract', 'deleg_float_to_degrees', 'deleg_float_to_radians', 'deleg_sign_minmax', 'deleg_mul_add_abs_sub', 'deleg_constants', 'identities_sample', 'negation_identities_bitwise', 'sum_is_left_fold_sample']
_C10_THOROUGH = {"sub_is_add_neg_tf_tf", "sub_is_add_neg_tf_f64", "add_commutes_tf_tf", "mul_sign_symmetry", "sum_is_left_fold"}
for _n in _C10:
    if _n in ("identities_sample", "negation_identities_bitwise", "sum_is_left_fold_sample"):
        continue
    _cls = "miter"
    _be = "cbmc+cvc5" if (_n.startswith("forms_") and "rem" not in _n) or _n in ("neg_forms", "commute_tf_f64", "deleg_mul_add_abs_sub") or _n in _C10_THOROUGH else "cbmc+kissat"
    if _n.endswith("_w"):
        ob("c10::" + _n, "C10", tier="witness", cls="bounded", timeout=300, functions=["operator forms (witness search): " + _n],
           bound={"significand_bits": "10 (one low word full width)", "exponents": "[2^-40, 2^40] or zero"})
        continue
    if _n in _C10_THOROUGH:
        continue  # identities that do not close (cvc5 900 s time-out, CBMC status 6 on the iterator fold): not registered, listed as undecided clauses
    ob("c10::" + _n, "C10", cls=_cls, timeout=900 if _n.startswith("forms_") or _n == "deleg_mul_add_abs_sub" else 300, backend=_be,
       functions=["operator forms / num_traits delegation: " + _n],
       witness=("c10::" + _n[:-2] + "_w") if (_n.startswith("forms_") and _n.endswith("_h") and "rem" not in _n) else None)

ob("c10::identities_sample", "C10", cls="ground", native=True, functions=["Add/Sub/Mul/Neg impls (algebraic identities, 14x14 structured operand pairs)"])
ob("c10::negation_identities_bitwise", "C10", cls="ground", native=True, functions=["Sub/Mul/Neg impls (negation identities, bit for bit)"])
ob("c10::sum_is_left_fold_sample", ["C10", "C03"], cls="ground", native=True, functions=["Sum<T> for TwoFloat"])

# ------------------------------------------------------------------ C12
ob("c12::consts_correctly_rounded", "C12", cls="ground", timeout=300, functions=["twofloat::consts::* (19 constants)"])
ob("c12::reference_words_valid", "C12", cls="ground", timeout=300)
ob("c12::associated_constants", "C12", cls="ground", timeout=300, functions=["TwoFloat::{MAX,MIN,MIN_POSITIVE,NAN,INFINITY,NEG_INFINITY}"])
ob("c12::max_min_extremal", "C12", cls="leaf", timeout=300, functions=["TwoFloat::MAX", "TwoFloat::MIN"])
ob("c12::angle_factors_correctly_rounded", "C12", cls="ground", timeout=600, native=True, functions=["TwoFloat::to_degrees", "TwoFloat::to_radians"])
ob("c12::angle_conversions_are_products", "C12", cls="miter", timeout=600, backend="cbmc+cvc5", functions=["TwoFloat::to_degrees", "TwoFloat::to_radians"])

# ------------------------------------------------------------------ C14
ob("c14::nopanic::exp_no_panic", "C14", checks="default", timeout=1800, functions=["TwoFloat::exp", "TwoFloat::expm1_quarter (private)", "explog::expm1_128th (private)", "explog::exp_half (private)"])
ob("c14::nopanic::exp2_no_panic", "C14", checks="default", timeout=1200, functions=["TwoFloat::exp2", "explog::mul_pow2 (private)"])
ob("c14::nopanic::exp_m1_powf_no_panic", "C14", checks="default", timeout=600, functions=["TwoFloat::exp_m1", "TwoFloat::powf"])
ob("c14::nopanic::exp_range_rules", "C14", checks="default", timeout=1800, functions=["TwoFloat::exp", "TwoFloat::exp2"])
ob("c14::nopanic::powf_case_table", "C14", checks="default", timeout=600, functions=["TwoFloat::powf"])
ob("c14::exact_points", "C14", cls="ground", native=True, functions=["TwoFloat::exp", "TwoFloat::exp_m1", "TwoFloat::powf"])
ob("c14::exp2_integers", "C14", cls="ground", native=True, functions=["TwoFloat::exp2"])
ob("c14::powf_parity", "C14", cls="ground", native=True, functions=["TwoFloat::powf"])
ob("c14::exp_reduction_boundaries", "C14", cls="ground", native=True, functions=["TwoFloat::exp"])

# ------------------------------------------------------------------ C13
ob("c13::solver::powi_no_panic", "C13", checks="default", timeout=900, functions=["TwoFloat::powi"])
ob("c13::solver::powi_zero_one", "C13", checks="default", timeout=600, functions=["TwoFloat::powi"])
ob("c13::solver::sqrt_domain", "C13", checks="default", timeout=600, functions=["TwoFloat::sqrt"])
ob("c13::solver::roots_no_panic", "C13", checks="default", timeout=600, functions=["TwoFloat::sqrt", "TwoFloat::cbrt", "TwoFloat::hypot"])
for _n in (2, 3, 6):
    ob("c13::powi_neg_is_recip_n%d" % _n, "C13", cls="bounded", timeout=600, backend="cbmc+cvc5", functions=["TwoFloat::powi"], bound={"exponent": "n == %d" % _n, "operands": "all word patterns"})
ob("c13::exact_points", "C13", cls="ground", native=True, functions=["TwoFloat::sqrt", "TwoFloat::cbrt", "TwoFloat::powi"])

# ------------------------------------------------------------------ C15
ob("c15::solver::logs_no_panic", "C15", checks="default", timeout=900, functions=["TwoFloat::ln", "TwoFloat::log2", "TwoFloat::log10", "TwoFloat::ln_1p", "TwoFloat::log"])
ob("c15::solver::logs_domain", "C15", checks="default", timeout=900, functions=["TwoFloat::ln", "TwoFloat::log2", "TwoFloat::ln_1p"])
ob("c15::log10_is_quotient", "C15", cls="miter", timeout=300, functions=["TwoFloat::log10"])
ob("c15::exact_points", "C15", cls="ground", native=True, functions=["TwoFloat::ln", "TwoFloat::log2", "TwoFloat::log10", "TwoFloat::ln_1p", "TwoFloat::log"])
ob("c15::log2_powers_of_two", "C15", cls="ground", native=True, functions=["TwoFloat::log2"])

# ------------------------------------------------------------------ C16, C17, C18
ob("c16::solver::trig_invalid_and_total", "C16", checks="default", timeout=900, functions=["TwoFloat::sin", "TwoFloat::cos", "TwoFloat::tan", "TwoFloat::sin_cos", "trigonometry::quadrant (private)"])
ob("c16::sin_cos_consistent", "C16", cls="miter", timeout=600, functions=["TwoFloat::sin_cos", "TwoFloat::sin", "TwoFloat::cos"])
ob("c16::exact_points", ["C16", "C17", "C18"], cls="ground", native=True, functions=["sin cos tan sin_cos asin acos atan atan2 sinh cosh tanh asinh acosh atanh (exact points)"])
ob("c16::solver::inverse_trig_domain", "C17", checks="default", timeout=900, functions=["TwoFloat::asin", "TwoFloat::acos", "TwoFloat::atan", "TwoFloat::atan2"])
ob("c16::solver::atan2_axes", "C17", checks="default", timeout=900, functions=["TwoFloat::atan2"])
ob("c16::solver::hyperbolic_total", "C18", checks="default", timeout=900, functions=["TwoFloat::sinh", "TwoFloat::cosh", "TwoFloat::tanh", "TwoFloat::asinh", "TwoFloat::acosh", "TwoFloat::atanh"])

# ------------------------------------------------------------------ C05 (exact clauses), C19, C11
ob("c05::recip_is_one_over_x", "C05", cls="miter", timeout=900, backend="cbmc+cvc5", functions=["TwoFloat::recip"])
ob("c05::div_f64_exact_clauses", "C05", timeout=600, functions=["Div<&f64> for &TwoFloat", "DivAssign<&f64> for TwoFloat"])
ob("c05::div_f64_pow2_exact", "C05", timeout=600, functions=["Div<&f64> for &TwoFloat"])
ob("c05::div_zero_numerator_f64", "C05", timeout=900, functions=["Div<&f64> for &TwoFloat", "DivAssign<&f64> for TwoFloat"])
ob("c05::div_zero_numerator_tf", "C05", tier="thorough", timeout=2400, functions=["Div<&TwoFloat> for &TwoFloat", "Div<&TwoFloat> for &f64"])
ob("c05::long_division_accuracy_sample", ["C05", "C01"], cls="ground", native=True, functions=["Div<&TwoFloat> for &TwoFloat", "Div<&TwoFloat> for &f64", "DivAssign<&TwoFloat> for TwoFloat", "TwoFloat::recip (16*2^-106 on 600 sample pairs)"])
ob("c05::long_division_exact_points", "C05", cls="ground", native=True, functions=["Div<&TwoFloat> for &TwoFloat", "DivAssign<&TwoFloat> for TwoFloat", "TwoFloat::recip"])
ob("c19::integers_exact", "C19", cls="ground", native=True, functions=["Rem/RemAssign impls", "TwoFloat::div_euclid", "TwoFloat::rem_euclid"])
ob("c19::tolerance_sample", "C19", cls="ground", native=True, functions=["Rem impls, TwoFloat::div_euclid, TwoFloat::rem_euclid (tolerance clause on 500 sample pairs)"])
ob("c19::big_integers_exact", "C19", cls="ground", native=True, functions=["Rem impls", "TwoFloat::div_euclid", "TwoFloat::rem_euclid"])
for _n in ("tf_tf", "tf_f64", "f64_tf"):
    ob("c19::rem_is_truncated_formula_" + _n, "C19", cls="miter", timeout=300, functions=["Rem impls"])
ob("c19::rem_euclid_structure", "C19", cls="miter", timeout=300, functions=["TwoFloat::rem_euclid"])
for _n in ("alg9_mul_tf_f64", "alg9_mul_f64_tf", "alg9_mul_assign_f64", "alg12_mul_tf_tf", "alg12_mul_assign_tf", "alg15_div_tf_f64", "alg15_div_assign_f64", "new_mul_is_fma_form"):
    ob("c11::nostd_" + _n, "C11", cls="miter", timeout=300, backend="cbmc+cvc5", features="nostd", functions=["arithmetic::fma (no-std definition) through " + _n])

# ------------------------------------------------------------------ C20
ob("c20::sd::deserialize_seq", "C20", features="serde", timeout=600, functions=["Deserialize for TwoFloat (visit_seq)", "TryFrom<(f64,f64)> for TwoFloat"])
ob("c20::sd::deserialize_map", "C20", features="serde", timeout=900, functions=["Deserialize for TwoFloat (visit_map, Field)"], bound_note="map length <= 3 (unwinding assertion on)")
ob("c20::sd::serialize_struct", "C20", features="serde", timeout=300, functions=["Serialize for TwoFloat"])
ob("c20::text_format_sample", "C20", cls="ground", native=True, functions=["Display / LowerExp / UpperExp for TwoFloat"])

# ------------------------------------------------------------------ accuracy clauses on a finite reference sample (ground)
for _p, _fs in (("C13", "sqrt cbrt hypot powi"), ("C14", "exp exp2 exp_m1 powf"), ("C15", "ln log2 log10 ln_1p"), ("C16", "sin cos tan"),
                ("C17", "asin acos atan atan2"), ("C18", "sinh cosh tanh asinh acosh atanh")):
    ob("acc::%s_accuracy_sample" % _p.lower(), [_p, "C01"], cls="ground", native=True, functions=["accuracy clause (and validity of the result) on the reference sample: " + _fs])

ob("scan::std_dependent_items", "C11", cls="ground", scan=True, kani_only=True, functions=["inventory: cfg(feature = \"std\") / target-dependent items outside test modules"])

COMMON_ASSUMPTIONS = [
    "Kani/CBMC bit-precise model of IEEE-754 binary64 (+,-,*,/,fma,casts,comparisons) equals the target's; one NaN (payload/sign of NaN not modelled)",
    "solver soundness (kissat, cadical, cvc5)",
    "harness inputs cover the stated domain: every f64 argument is an unconstrained 64-bit pattern unless a vassume! narrows it (listed per obligation in the overlay)",
]

PROPERTY_META = {
    "C07": {
        "explanation": "no_overlap's real body (with libm exp2/copysign/fabs compiled from source) is proved equal to Definition 1.4 for all 2^128 pairs; is_valid and both TryFrom impls are proved against the same definition with no_overlap replaced by its (proved) contract; lemma L0 ties the Layer-2 predicate valid_bits used elsewhere to the definition.",
        "assumptions": [],
        "assumed_lemmas": [],
        "undecided_clauses": [],
    },
}


def select(prop, tier, seed=0):
    """obligations run by `check <prop> --tier <tier>`: the rows owned by the property (first entry of
    props).  Rows that merely serve the property are discharged by their owner's check and are listed
    in the evidence under `rests_on`."""
    rows = [o for o in ALL if (o["props"][0] == prop or ((o.get("native") or o.get("share")) and prop in o["props"])) and o["tier"] not in ("rotated", "witness", "experimental") and (tier == "thorough" or o["tier"] == "quick")]
    if tier == "thorough":
        # seed-rotated sample of the ghost-value accuracy obligations (tier "rotated"): gaps 0, +-1, +-53 always,
        # plus 7 seeded gaps per algorithm variant; the evidence lists exactly the (variant, gap) pairs discharged
        rng = random.Random(seed)
        for fam in sorted({o.get("family") for o in ALL if o["tier"] == "rotated" and o["props"][0] == prop}):
            cand = [o for o in ALL if o.get("family") == fam and o["tier"] == "rotated"]
            if fam == "acc9" and not os.environ.get("VERIF_ALL_GAPS"):
                # Algorithm 9: only the cases measured to close (gap 53, gaps >= 103, far case); gaps 54..102 time out
                # (> 90 min each) and are reachable only through VERIF_ALL_GAPS=1
                rows += [o for o in cand if o["gap"] in (53, 103, 105, 106, 107, 110, 1000)]
                continue
            fixed = [o for o in cand if o["gap"] in (0, 1, -1, 53, -53)]
            rest = [o for o in cand if o not in fixed and abs(o["gap"]) <= 60]
            if os.environ.get("VERIF_ALL_GAPS"):
                rows += cand      # full sweep (hours): every gap and both far cases of every variant
            else:
                rows += fixed + rng.sample(rest, min(7, len(rest)))
    if tier == "quick":
        # seeded sample of the per-gap leaf obligations: 2 per family among those measured <= 160 s
        rng = random.Random(seed)
        for fam in sorted({o.get("family") for o in ALL if o.get("family") and o["props"][0] == prop}):
            cand = [o for o in ALL if o.get("family") == fam and o["props"][0] == prop and o.get("measured_s", 1e9) <= 160]
            rows += rng.sample(cand, min(2, len(cand)))
    return rows


def rests_on(prop):
    out = {}
    for o in ALL:
        if prop in o["props"][1:]:
            out.setdefault(o["props"][0], []).append(o["name"])
    return out
