"""Obligation table: one row per harness of the overlay (DESIGN.md section 4).

name      harness path below `twofloat::verif::`
props     properties the obligation serves
tier      quick | thorough   (thorough runs quick + thorough rows)
cls       leaf | modular | miter | lemma | ground | bounded | canary
checks    nooverflow (numeric obligations) | default (panic-freedom: all Kani checks on)
features  default | nostd | serde
timeout   seconds (>= 4x the time measured on the pinned tree, floor 120)
functions crate functions whose contract the obligation proves
native    True: ground obligation, evaluated natively on the real code
"""

ALL = []


def ob(name, props, tier="quick", cls="modular", timeout=240, functions=(), **kw):
    d = dict(name=name, props=list(props) if not isinstance(props, str) else [props], tier=tier, cls=cls,
             timeout=timeout, functions=list(functions), checks=kw.pop("checks", "nooverflow"),
             features=kw.pop("features", "default"))
    d.update(kw)
    ALL.append(d)
    return d


# ------------------------------------------------------------------ C07
ob("c07::no_overlap_def", "C07", cls="leaf", timeout=600, functions=["twofloat::base::no_overlap (= twofloat::no_overlap)"])
ob("c07::lemma_l0_valid_bits", ["C07", "C01", "C06"], cls="lemma", timeout=120)
ob("c07::is_valid_def", "C07", cls="modular", timeout=120, functions=["TwoFloat::is_valid"])
ob("c07::try_from_tuple", "C07", cls="modular", timeout=120, functions=["TryFrom<(f64,f64)> for TwoFloat", "From<TwoFloat> for (f64,f64)", "From<&TwoFloat> for (f64,f64)"])
ob("c07::try_from_array", "C07", cls="modular", timeout=120, functions=["TryFrom<[f64;2]> for TwoFloat", "From<TwoFloat> for [f64;2]", "From<&TwoFloat> for [f64;2]"])

# ------------------------------------------------------------------ C06
_cmp = ["PartialOrd<TwoFloat> for TwoFloat", "PartialEq<TwoFloat> for TwoFloat"]
ob("c06::cmp_tf_tf", "C06", timeout=240, functions=_cmp)
ob("c06::cmp_tf_f64", "C06", timeout=240, functions=["PartialOrd<f64> for TwoFloat", "PartialOrd<TwoFloat> for f64", "PartialEq<f64> for TwoFloat", "PartialEq<TwoFloat> for f64"])
ob("c06::eq_symmetric", "C06", timeout=240, functions=["PartialEq<TwoFloat> for TwoFloat"])
ob("c06::eq_iff_cmp_equal", "C06", timeout=240, functions=_cmp)
ob("c06::nan_unordered", "C06", timeout=240, functions=_cmp)
ob("c06::min_max", "C06", timeout=300, functions=["TwoFloat::min", "TwoFloat::max"])
ob("c06::sign_queries", "C06", timeout=300, functions=["TwoFloat::abs", "TwoFloat::is_sign_positive", "TwoFloat::is_sign_negative", "TwoFloat::signum", "TwoFloat::copysign"])
ob("c06::signum_invalid", "C06", timeout=240, functions=["TwoFloat::signum"])
ob("c06::lemma_sign", "C06", cls="lemma", timeout=300)
for _c in ("p0", "p1", "p2", "p3", "n0", "n1", "n2", "n3"):
    ob("c06::lemma_bracket_" + _c, "C06", tier="thorough", cls="lemma", timeout=5400)

COMMON_ASSUMPTIONS = [
    "Kani/CBMC bit-precise model of IEEE-754 binary64 (+,-,*,/,fma,casts,comparisons) equals the target's; one NaN (payload/sign of NaN not modelled)",
    "solver soundness (kissat, cadical, cvc5)",
    "harness inputs cover the stated domain: every f64 argument is an unconstrained 64-bit pattern unless a vassume! narrows it (listed per obligation in the overlay)",
]

PROPERTY_META = {
    "C07": {
        "explanation": "no_overlap's real body (with libm exp2/copysign/fabs compiled from source) is proved equal to Definition 1.4 for all 2^128 pairs; is_valid and both TryFrom impls are proved against the same definition with no_overlap replaced by its (proved) contract; lemma L0 ties the Layer-2 predicate valid_bits used elsewhere to the definition.",
        "assumptions": [],
        "assumed_lemmas": [],
        "undecided_clauses": [],
    },
}


def select(prop, tier, seed=0):
    rows = [o for o in ALL if prop in o["props"] and (tier == "thorough" or o["tier"] == "quick")]
    # lemma rows shared with other properties are only run under their first property unless thorough
    rows = [o for o in rows if o["props"][0] == prop or tier == "thorough" or o.get("shared_quick")]
    return rows
