#!/usr/bin/env python3
"""Runs the registered quick (or thorough) check of each seeded change's property against a scratch
worktree of /repo with the change applied (never /repo itself) and records the outcome in meta.json."""
import json, os, subprocess, sys, shutil, re, time
VERIF = os.path.dirname(os.path.dirname(os.path.abspath(__file__)))
only = sys.argv[1:] or None
tier = os.environ.get("SEED_TIER", "quick")
for d in sorted(os.listdir(os.path.join(VERIF, "seeded"))):
    if only and d not in only:
        continue
    sd = os.path.join(VERIF, "seeded", d)
    meta = json.load(open(os.path.join(sd, "meta.json")))
    prop = meta["property"]
    wt = "/var/tmp/seedwt-%s" % d
    subprocess.run(["git", "-C", "/repo", "worktree", "remove", "--force", wt], capture_output=True)
    subprocess.check_call(["git", "-C", "/repo", "worktree", "add", "-q", "--detach", wt, "HEAD"])
    try:
        subprocess.check_call(["git", "-C", wt, "apply", os.path.join(sd, "patch.diff")])
        env = dict(os.environ, VERIF_REPO=wt, VERIF_EVIDENCE_DIR="/var/tmp/seed-evidence", VERIF_REPLAY_DIR="/var/tmp/seed-replays")
        t0 = time.time()
        props = [prop] + meta.get("also_check", [])
        lines = []
        rc_all = []
        for p in props:
            r = subprocess.run([os.path.join(VERIF, "check"), p, "--tier", tier], env=env, capture_output=True, text=True)
            rc_all.append(r.returncode)
            lines += [l for l in r.stdout.splitlines() if l.startswith(("VIOLATION", "UNDECIDED", "SUMMARY", "KNOWN"))]
        meta["detected_by"] = {"tier": tier, "checks_run": props, "exit_codes": rc_all, "wall_s": round(time.time() - t0),
                               "output": [re.sub(r"replay=\S+", "replay=<path>", l)[:400] for l in lines],
                               "detected": any(rc == 1 for rc in rc_all)}
        json.dump(meta, open(os.path.join(sd, "meta.json"), "w"), indent=1)
        print(d, prop, "exit", rc_all, "detected" if meta["detected_by"]["detected"] else "NOT DETECTED", flush=True)
        for l in lines:
            if l.startswith("VIOLATION"):
                print("   ", l[:300], flush=True)
    finally:
        subprocess.run(["git", "-C", "/repo", "worktree", "remove", "--force", wt], capture_output=True)
        shutil.rmtree(wt, ignore_errors=True)
