#!/usr/bin/env python3
"""Reference samples for the accuracy clauses of C13-C18 (finite, seeded, stratified).

For each function a few dozen arguments are drawn as exact double-double operands (hi, lo) from the
ranges the property states; the true value at the exact argument is computed with mpmath at 500
bits and stored as a triple-double (error < 2^-150 relative), together with the allowed absolute
error of the property's clause evaluated at that point (rounded down to f64).  The overlay's ground
obligations evaluate the real code natively on these arguments and compare in exact Fix
arithmetic.  This is a *finite sample*, reported as `ground_evaluated`, never as proof.

Needs mpmath (tooling venv: python3-vt).  Output: overlay/src/verif/acc_data.rs, refdata/accuracy.json
"""
import json, math, os, random, struct, sys
import mpmath
from mpmath import mp, mpf

mp.prec = 500
rng = random.Random(20260927)
HERE = os.path.dirname(os.path.abspath(__file__))


def bits(x):
    return struct.unpack("<Q", struct.pack("<d", x))[0]


def f64(v):
    """nearest f64 of an mpf"""
    return float(mpmath.nstr(v, 40)) if False else float(v)


def split3(v):
    r1 = float(v); r2 = float(v - mpf(r1)); r3 = float(v - mpf(r1) - mpf(r2))
    return r1, r2, r3


def floor_f64(v):
    """largest f64 <= v (v > 0)"""
    x = float(v)
    if mpf(x) > v:
        x = math.nextafter(x, 0.0)
    return x


def dd(hi, frac=None):
    """a valid double-double with the given high word and a random low word (|lo| <= ulp/2 * frac)"""
    if hi == 0.0:
        return (0.0, 0.0)
    if frac is None:
        frac = rng.choice([0.0, 1.0, 0.5, rng.random(), rng.random() * 1e-6, rng.random()])
    u = math.ulp(hi) / 2
    lo = u * frac * rng.choice([-1.0, 1.0]) * 0.999
    if hi + lo != hi:
        lo /= 4.0            # below a power of two the spacing halves
    assert hi + lo == hi
    return (hi, lo)


def logu(lo_exp, hi_exp, sign=True):
    e = rng.uniform(lo_exp, hi_exp)
    x = 2.0 ** e * rng.uniform(1.0, 1.0)
    x = float(mpf(2) ** e)
    if sign and rng.random() < 0.5:
        x = -x
    return x


def val(p):
    return mpf(p[0]) + mpf(p[1])


ROWS = []


def add(fid, x, y, ref, tol):
    r1, r2, r3 = split3(ref)
    t = floor_f64(tol)
    assert t > 0
    ROWS.append((fid, bits(x[0]), bits(x[1]), bits(y[0]), bits(y[1]), bits(r1), bits(r2), bits(r3), bits(t)))


U = mpf(2) ** -106
two = lambda k: mpf(2) ** k

# ---------------- C13
for i in range(40):                                   # sqrt
    x = dd(abs(logu(-900, 900))); v = val(x); r = mpmath.sqrt(v); add(1, x, (0.0, 0.0), r, 32 * U * r)
for i in range(40):                                   # cbrt (both signs)
    x = dd(logu(-900, 900)); v = val(x); r = mpmath.cbrt(abs(v)) * (1 if v > 0 else -1); add(2, x, (0.0, 0.0), r, 16 * U * abs(r))
for i in range(40):                                   # hypot
    x = dd(logu(-400, 400)); y = dd(logu(-400, 400)) if i % 3 else dd(x[0] * rng.uniform(0.5, 2.0))
    r = mpmath.sqrt(val(x) ** 2 + val(y) ** 2); add(3, x, y, r, 48 * U * r)
for k in range(1, 61, 2):                             # hypot, magnitude ratio 2^k (the band where the small leg still matters)
    x = dd(float(mpf(2) ** rng.uniform(-40, 40)) * rng.choice([-1.0, 1.0])); y = dd(x[0] * 2.0 ** -k * rng.uniform(1.0, 1.9))
    if k % 4 == 1: x, y = y, x
    r = mpmath.sqrt(val(x) ** 2 + val(y) ** 2); add(3, x, y, r, 48 * U * r)
for i in range(60):                                   # powi
    n = rng.choice([2, 3, 5, 7, -2, -3, 10, -10, 17, 100, -100, 1000, -1000, 12345, -54321, 1 << 20, -(1 << 20)])
    lim = 850.0 / abs(n)
    x = dd(logu(-lim, lim)) if abs(n) < 64 else dd(float(mpf(2) ** rng.uniform(-lim, lim)) * rng.choice([-1.0, 1.0]))
    v = val(x); r = v ** n
    if two(-900) <= abs(r) <= two(900):
        add(4, x, (float(n), 0.0), r, (6 * abs(n) + 16) * U * abs(r))
# ---------------- C14
for i in range(60):                                   # exp on [-600, 700]
    h = rng.uniform(-600, 700) if i % 4 else rng.choice([-1, 1]) * float(mpf(2) ** rng.uniform(-60, 3))
    if i % 10 == 0: h = round(h * 2) / 2 + 0.25
    x = dd(h); r = mpmath.exp(val(x)); add(5, x, (0.0, 0.0), r, two(-100) * r)
# exp: every entry of the three lookup tables (exp(1/2)^b, b = 1..31; exp(16)^a, a = 1..37 within the stated range; exp(n/128) - 1, n = -32..32), both signs
for b in range(1, 32):
    for sg in (1, -1):
        x = dd(sg * (b / 2 + rng.uniform(-0.2, 0.2))); r = mpmath.exp(val(x)); add(5, x, (0.0, 0.0), r, two(-100) * r)
for a in range(1, 44):
    for sg in (1, -1):
        h = sg * (16 * a + rng.uniform(-0.2, 0.2) + rng.choice([0, 0.5, 3.5, 11.5]))
        if -600 <= h <= 700:
            x = dd(h); r = mpmath.exp(val(x)); add(5, x, (0.0, 0.0), r, two(-100) * r)
for n in range(-32, 33):
    x = dd(rng.choice([0.0, 1.0, -2.0, 5.5]) + n / 128 + rng.uniform(-0.003, 0.003)); r = mpmath.exp(val(x)); add(5, x, (0.0, 0.0), r, two(-100) * r)
for i in range(50):                                   # exp2 on [-900, 1000]
    h = rng.uniform(-900, 1000) if i % 4 else rng.choice([-1, 1]) * float(mpf(2) ** rng.uniform(-40, 3))
    x = dd(h); r = mpf(2) ** val(x); add(6, x, (0.0, 0.0), r, two(-93) * r)
for i in range(70):                                   # exp_m1
    k = i % 5
    h = [lambda: rng.choice([-1, 1]) * float(mpf(2) ** rng.uniform(-200, -8)), lambda: rng.uniform(-0.70, 0.41), lambda: rng.uniform(0.41, 700),
         lambda: rng.uniform(-50, -0.70), lambda: rng.choice([-1, 1]) * float(mpf(2) ** rng.uniform(-8, -1))][k]()
    x = dd(h); v = val(x); r = mpmath.expm1(v)
    tight = abs(v) <= two(-8) or v < mpf("-0.70") or v > mpf("0.41")
    add(7, x, (0.0, 0.0), r, (two(-100) if tight else two(-45)) * abs(r))
for i in range(50):                                   # powf, positive base
    x = dd(float(mpf(2) ** rng.uniform(-30, 30))); y = dd(rng.uniform(-10, 10))
    vx, vy = val(x), val(y); r = mpmath.exp(vy * mpmath.log(vx)); add(8, x, y, r, two(-100) * (1 + abs(vy * mpmath.log(vx))) * r)
# ---------------- C15
for i in range(80):                                   # ln / log2 / log10 on [2^-1000, 2^960], dense around 1
    if i % 3 == 0:
        x = (1.0, rng.choice([-1, 1]) * 2.0 ** rng.uniform(-110, -54)) if i % 6 == 0 else dd(1.0 + rng.choice([-1, 1]) * 2.0 ** rng.uniform(-50, -2))
    else:
        x = dd(float(mpf(2) ** rng.uniform(-1000, 960)))
    v = val(x)
    l = mpmath.log(v); add(9, x, (0.0, 0.0), l, two(-101) * (1 + abs(l)))
    l2 = l / mpmath.log(2); add(10, x, (0.0, 0.0), l2, two(-101) * abs(l2) + two(-92))
    l10 = l / mpmath.log(10); add(11, x, (0.0, 0.0), l10, two(-100) * (1 + abs(l10)))
for i in range(60):                                   # ln_1p
    k = i % 4
    h = [lambda: rng.choice([-1, 1]) * float(mpf(2) ** rng.uniform(-300, -8)), lambda: rng.uniform(-0.99, 0.75), lambda: float(mpf(2) ** rng.uniform(-0.4, 900)),
         lambda: -1 + 2.0 ** rng.uniform(-40, -1)][k]()
    x = dd(h); v = val(x); r = mpmath.log1p(v)
    tight = abs(v) <= two(-8) or v >= mpf("0.75")
    add(12, x, (0.0, 0.0), r, (two(-100) if tight else two(-45)) * abs(r))
# ---------------- C16
for i in range(90):                                   # sin cos tan on |x| <= 2^20
    k = i % 6
    if k == 0: h = rng.choice([-1, 1]) * float(mpf(2) ** rng.uniform(-60, -1))
    elif k == 1: h = rng.uniform(-math.pi / 4, math.pi / 4)
    elif k == 2: h = rng.randint(-40, 40) * math.pi / 4 + rng.uniform(-1e-6, 1e-6)
    elif k == 3: h = rng.uniform(-1000, 1000)
    elif k == 4: h = rng.choice([-1, 1]) * float(mpf(2) ** rng.uniform(8, 20))
    else: h = rng.uniform(-20, 20)
    x = dd(h); v = val(x)
    s = mpmath.sin(v); c = mpmath.cos(v); t = mpmath.tan(v)
    add(13, x, (0.0, 0.0), s, min(two(-66), two(-64) * abs(s)) if abs(v) <= mpmath.pi / 4 else two(-66))
    add(14, x, (0.0, 0.0), c, two(-66))
    add(15, x, (0.0, 0.0), t, two(-50) * max(abs(t), two(-30)) + two(-80) * (1 + t * t))
# ---------------- C17
for i in range(60):                                   # asin acos on [-1, 1]
    h = rng.uniform(-1, 1) if i % 3 else rng.choice([-1, 1]) * (rng.choice([0.5, 1.0]) - 2.0 ** rng.uniform(-30, -3))
    if i % 7 == 0: h = rng.choice([-1, 1]) * 2.0 ** rng.uniform(-60, -2)
    x = dd(h)
    if abs(val(x)) > 1: continue
    v = val(x); a = mpmath.asin(v); c = mpmath.acos(v)
    add(16, x, (0.0, 0.0), a, min(two(-45), two(-43) * abs(a)))
    add(17, x, (0.0, 0.0), c, two(-45))
for i in range(80):                                   # atan on |x| <= 2^60, stratified over the breakpoints
    k = i % 8
    base = [7 / 16, 11 / 16, 19 / 16, 39 / 16, 0.5, 1.0, 1.5, 2.0][k]
    if i % 3 == 0: h = base * (1 + rng.uniform(-1e-3, 1e-3))
    elif i % 3 == 1: h = float(mpf(2) ** rng.uniform(-60, 60))
    else: h = rng.uniform(0, 3)
    h *= rng.choice([-1, 1])
    x = dd(h); v = val(x); r = mpmath.atan(v); add(18, x, (0.0, 0.0), r, two(-70) * abs(r))
for i in range(60):                                   # atan2, operands with high words in [2^-30, 2^30]
    y = dd(logu(-30, 30)); x = dd(logu(-30, 30))
    r = mpmath.atan2(val(y), val(x)); add(19, y, x, r, two(-69) * abs(r))
# ---------------- C18
for i in range(60):                                   # sinh cosh tanh, |x| <= 600
    h = rng.uniform(-600, 600) if i % 3 else rng.choice([-1, 1]) * float(mpf(2) ** rng.uniform(-40, 3))
    x = dd(h); v = val(x)
    s = mpmath.sinh(v); c = mpmath.cosh(v); t = mpmath.tanh(v)
    add(20, x, (0.0, 0.0), s, two(-100) * abs(s) + two(-101))
    add(21, x, (0.0, 0.0), c, two(-100) * c)
    add(22, x, (0.0, 0.0), t, two(-100) * abs(t) + two(-101))
for i in range(60):                                   # asinh, both signs, |x| <= 2^60
    h = rng.choice([-1, 1]) * float(mpf(2) ** rng.uniform(-40, 60))
    x = dd(h); r = mpmath.asinh(val(x)); add(23, x, (0.0, 0.0), r, two(-100) * abs(r) + two(-98))
for i in range(40):                                   # acosh, 1 < x <= 2^60
    h = 1 + float(mpf(2) ** rng.uniform(-40, 60)) if i % 2 else float(mpf(2) ** rng.uniform(0.001, 60))
    x = dd(h)
    if val(x) <= 1: continue
    a = mpmath.acosh(val(x)); add(24, x, (0.0, 0.0), a, two(-100) * (a + 1 / a))
for i in range(40):                                   # atanh, |x| <= 1 - 2^-10
    h = rng.uniform(-1 + 2.0 ** -10, 1 - 2.0 ** -10) if i % 3 else rng.choice([-1, 1]) * float(mpf(2) ** rng.uniform(-40, -1))
    x = dd(h); r = mpmath.atanh(val(x)); add(25, x, (0.0, 0.0), r, two(-100) * abs(r) + two(-101))

names = {1: "sqrt", 2: "cbrt", 3: "hypot", 4: "powi", 5: "exp", 6: "exp2", 7: "exp_m1", 8: "powf", 9: "ln", 10: "log2", 11: "log10", 12: "ln_1p",
         13: "sin", 14: "cos", 15: "tan", 16: "asin", 17: "acos", 18: "atan", 19: "atan2", 20: "sinh", 21: "cosh", 22: "tanh", 23: "asinh", 24: "acosh", 25: "atanh"}
out = ["//! GENERATED by /verif/gen/gen_accuracy.py (mpmath, 500 bits): reference samples for the accuracy clauses of C13-C18.",
       "//! (function id, x.hi, x.lo, y.hi / n, y.lo, reference as a triple-double r1 + r2 + r3, allowed absolute error) - all as f64 bit patterns.",
       "pub const ACC: &[(u8, u64, u64, u64, u64, u64, u64, u64, u64)] = &["]
for r in ROWS:
    out.append("    (%d, 0x%016x, 0x%016x, 0x%016x, 0x%016x, 0x%016x, 0x%016x, 0x%016x, 0x%016x)," % r)
out.append("];")
open(os.path.join(HERE, "..", "overlay", "src", "verif", "acc_data.rs"), "w").write("\n".join(out) + "\n")
cnt = {}
for r in ROWS:
    cnt[names[r[0]]] = cnt.get(names[r[0]], 0) + 1
json.dump({"_provenance": "mpmath %s at 500 bits, seed 20260927; tolerance = the property's clause evaluated at the reference value, rounded down to f64" % mpmath.__version__,
           "samples_per_function": cnt, "total": len(ROWS)}, open(os.path.join(HERE, "..", "refdata", "accuracy.json"), "w"), indent=1)
print(len(ROWS), cnt)
