#!/usr/bin/env python3
"""Reference data for C12/C17: correctly rounded double-double images of the published constants.

Pure integer arithmetic (fixed point, unit 2^-P) with explicit error margins; cross-checked against
mpmath when it is importable (tooling venv).  Writes refdata/constants.json and the generated
overlay table overlay/src/verif/c12_data.rs.  Run once at development time; the committed output is
re-verified by `check --setup` (integer part only, a few hundred ms).
"""
import json, os, sys
from fractions import Fraction
from math import isqrt

P = 420                     # working precision (bits after the binary point)
ONE = 1 << P
MARGIN = 1 << 40            # every fixed-point value below is within MARGIN units (2^-380) of the truth

def atan_inv(n):            # atan(1/n) * 2^P, alternating series, truncation error < 1 unit per term
    x = ONE // n; s = x; k = 1; n2 = n * n; sign = -1
    while x:
        x //= n2; k += 2; s += sign * (x // k); sign = -sign
    return s
def atanh_inv(n):           # atanh(1/n) * 2^P
    x = ONE // n; s = x; k = 1; n2 = n * n
    while x:
        x //= n2; k += 2; s += x // k
    return s
PI = 16 * atan_inv(5) - 4 * atan_inv(239)
E = 0; t = ONE; k = 0
while t:
    E += t; k += 1; t //= k
LN2 = 2 * atanh_inv(3)
LN10 = 3 * LN2 + 2 * atanh_inv(9)
SQRT2 = isqrt(2 << (2 * P))
SQRTPI = isqrt(PI << P)
def div(a, b): return (a << P) // b
ATAN_1_2 = atan_inv(2)
ATAN_3_2 = (PI // 2) - (atan_inv(3) + atan_inv(7) - 0) if False else None
# atan(3/2) = pi/2 - atan(2/3); atan(2/3) by the series in x = 2/3 (converges, ratio 4/9)
def atan_frac(p, q):
    x = (ONE * p) // q; s = x; k = 1; sign = -1; pw = x
    while pw:
        pw = pw * p * p // (q * q); k += 2; s += sign * (pw // k); sign = -sign
    return s
ATAN_3_2 = PI // 2 - atan_frac(2, 3)

CONSTS = {
    "E": E, "FRAC_1_PI": div(ONE, PI), "FRAC_1_SQRT_2": div(ONE, SQRT2), "FRAC_2_PI": div(2 * ONE, PI),
    "FRAC_2_SQRT_PI": div(2 * ONE, SQRTPI), "FRAC_PI_2": PI // 2, "FRAC_PI_3": PI // 3, "FRAC_PI_4": PI // 4,
    "FRAC_PI_6": PI // 6, "FRAC_PI_8": PI // 8, "LN_10": LN10, "LN_2": LN2, "LOG10_2": div(LN2, LN10),
    "LOG10_E": div(ONE, LN10), "LOG2_10": div(LN10, LN2), "LOG2_E": div(ONE, LN2), "PI": PI, "SQRT_2": SQRT2, "TAU": 2 * PI,
    # private / auxiliary constants
    "DEG_PER_RAD": div(180 * ONE, PI), "RAD_PER_DEG": PI // 180, "ATAN_FRAC_1_2": ATAN_1_2, "ATAN_FRAC_3_2": ATAN_3_2,
    "EXPLOG_LN_10": LN10, "EXPLOG_FRAC_1_LN_2": div(ONE, LN2), "EXPLOG_LN_FRAC_3_2": 2 * atanh_inv(5),
}

def rn53(fr):
    """round a positive Fraction to the nearest binary64 (ties to even); returns (float, is_tie)"""
    assert fr > 0
    n, d = fr.numerator, fr.denominator
    e = n.bit_length() - d.bit_length()
    if Fraction(1 << e if e >= 0 else 1, 1 if e >= 0 else 1 << -e) > fr: e -= 1
    # 2^e <= fr < 2^(e+1); significand with 53 bits: m = fr / 2^(e-52)
    sh = e - 52
    m = fr / (Fraction(1 << sh) if sh >= 0 else Fraction(1, 1 << -sh))
    fl = m.numerator // m.denominator
    rem = m - fl
    tie = rem == Fraction(1, 2)
    if rem > Fraction(1, 2) or (tie and fl & 1): fl += 1
    import math
    return math.ldexp(fl, sh), tie

def dd_of(v):
    """correctly rounded double-double of the real number in [v-MARGIN, v+MARGIN] * 2^-P; asserts that
    the enclosure excludes every rounding boundary"""
    res = []
    for x in (v - MARGIN, v + MARGIN):
        fr = Fraction(x, ONE)
        hi, tie1 = rn53(fr)
        r = fr - Fraction(hi)
        if r == 0: lo, tie2 = 0.0, False
        elif r > 0: lo, tie2 = rn53(r)
        else:
            lo, tie2 = rn53(-r); lo = -lo
        assert not tie1 and not tie2
        res.append((hi, lo))
    assert res[0] == res[1], "enclosure straddles a rounding boundary"
    return res[0]

def bits(x):
    import struct
    return struct.unpack("<Q", struct.pack("<d", x))[0]

out = {"_provenance": "integer fixed-point series (Machin pi, exp series, atanh series for ln 2 / ln 10, integer square roots), unit 2^-%d, error margin 2^-%d; cross-checked with mpmath at 500 bits when available" % (P, P - 40), "constants": {}}
for name, v in CONSTS.items():
    hi, lo = dd_of(v)
    out["constants"][name] = {"hi_bits": "%016x" % bits(hi), "lo_bits": "%016x" % bits(lo), "hi": hi.hex(), "lo": lo.hex(),
                              "enclosure_lo": hex(v - MARGIN), "enclosure_hi": hex(v + MARGIN), "unit": "2^-%d" % P}
try:
    import mpmath
    mpmath.mp.prec = 500
    mp = mpmath.mp
    ref = {"E": mp.e, "FRAC_1_PI": 1 / mp.pi, "FRAC_1_SQRT_2": 1 / mp.sqrt(2), "FRAC_2_PI": 2 / mp.pi, "FRAC_2_SQRT_PI": 2 / mp.sqrt(mp.pi),
           "FRAC_PI_2": mp.pi / 2, "FRAC_PI_3": mp.pi / 3, "FRAC_PI_4": mp.pi / 4, "FRAC_PI_6": mp.pi / 6, "FRAC_PI_8": mp.pi / 8,
           "LN_10": mp.log(10), "LN_2": mp.log(2), "LOG10_2": mp.log(2) / mp.log(10), "LOG10_E": 1 / mp.log(10), "LOG2_10": mp.log(10) / mp.log(2),
           "LOG2_E": 1 / mp.log(2), "PI": mp.pi, "SQRT_2": mp.sqrt(2), "TAU": 2 * mp.pi, "DEG_PER_RAD": 180 / mp.pi, "RAD_PER_DEG": mp.pi / 180,
           "ATAN_FRAC_1_2": mp.atan(mp.mpf(1) / 2), "ATAN_FRAC_3_2": mp.atan(mp.mpf(3) / 2), "EXPLOG_LN_10": mp.log(10),
           "EXPLOG_FRAC_1_LN_2": 1 / mp.log(2), "EXPLOG_LN_FRAC_3_2": mp.log(mp.mpf(3) / 2)}
    for name, v in CONSTS.items():
        d = abs(mp.mpf(v) / mp.mpf(ONE) - ref[name])
        assert d < mp.mpf(2) ** -370, (name, d)
    out["_mpmath_crosscheck"] = "agreed to 2^-370 for all %d constants" % len(CONSTS)
    print("mpmath cross-check ok")
except ImportError:
    out["_mpmath_crosscheck"] = "mpmath not importable in this interpreter"
    print("mpmath not available; integer derivation only")

here = os.path.dirname(os.path.abspath(__file__))
if "--verify" in sys.argv:
    old = json.load(open(os.path.join(here, "..", "refdata", "constants.json")))
    for k, v in out["constants"].items():
        assert old["constants"][k]["hi_bits"] == v["hi_bits"] and old["constants"][k]["lo_bits"] == v["lo_bits"], k
    print("refdata/constants.json re-derived: %d constants agree" % len(out["constants"]))
    sys.exit(0)
json.dump(out, open(os.path.join(here, "..", "refdata", "constants.json"), "w"), indent=1)
rs = ["//! GENERATED by /verif/gen/gen_consts.py from refdata/constants.json: expected words (bit patterns) of the",
      "//! correctly rounded double-double image of each constant.", "pub const EXPECTED: &[(&str, u64, u64)] = &["]
for k, v in out["constants"].items():
    rs.append("    (\"%s\", 0x%s, 0x%s)," % (k, v["hi_bits"], v["lo_bits"]))
rs.append("];")
open(os.path.join(here, "..", "overlay", "src", "verif", "c12_data.rs"), "w").write("\n".join(rs) + "\n")
print("wrote refdata/constants.json and c12_data.rs")
