//! C06 — comparison, equality and sign queries agree with the exact real value.
use super::contracts::*;
use super::spec::fix::{fx, Fix};
use super::spec::*;
use crate::TwoFloat;
use core::cmp::Ordering;

/// exact order of two valid values.  Inside the solver: lexicographic order of
/// the words (Layer 2; equal to the exact order by lemma L-lex, see
/// `lemma_bracket_*` and DESIGN section 3); natively: `Fix` comparison.
#[cfg(kani)]
pub fn order(a: &TwoFloat, b: &TwoFloat) -> Ordering { lex(a, b) }
#[cfg(not(kani))]
pub fn order(a: &TwoFloat, b: &TwoFloat) -> Ordering { val(a).cmp(val(b)) }

fn has_nan(x: &TwoFloat) -> bool { x.hi.is_nan() || x.lo.is_nan() }

fn succ(x: f64) -> f64 {
    let b = x.to_bits();
    if x == 0.0 { return f64::from_bits(1); }
    if (b >> 63) == 0 { f64::from_bits(b + 1) } else { f64::from_bits(b - 1) }
}
fn pred(x: f64) -> f64 { -succ(-x) }

/// one-pair bracket lemma, case-split: a valid pair's exact value lies between the
/// midpoints to the neighbours of hi, ties only for even hi
fn bracket_case(case: u8, neg: bool) {
    let a = any_valid();
    vassume!(a.hi.abs() < 1.0e308 && a.lo != 0.0);
    vassume!(if neg { a.hi < 0.0 } else { a.hi > 0.0 });
    let pow2 = (a.hi.to_bits() & M52) == 0;
    match case {
        0 => { vassume!(!pow2 && a.lo > 0.0) }
        1 => { vassume!(!pow2 && a.lo < 0.0) }
        2 => { vassume!(pow2 && a.lo > 0.0) }
        _ => { vassume!(pow2 && a.lo < 0.0) }
    }
    let v2 = val(&a).add(val(&a));
    if a.lo > 0.0 {
        let up2 = fx(a.hi).add(fx(succ(a.hi)));
        let s = up2.sub(v2).sign();
        vassert!(s >= 0, "value <= midpoint(hi, succ hi)");
        vassert!(s != 0 || a.hi.to_bits() & 1 == 0, "upper tie only for even hi");
    } else {
        let dn2 = fx(a.hi).add(fx(pred(a.hi)));
        let s = v2.sub(dn2).sign();
        vassert!(s >= 0, "value >= midpoint(pred hi, hi)");
        vassert!(s != 0 || a.hi.to_bits() & 1 == 0, "lower tie only for even hi");
    }
    vcover!(true, "post-state reachable");
}

harnesses! {
    /// valid a, b: partial_cmp and the five operators return the exact order
    #[kani::solver(kissat)]
    #[kani::stub(crate::base::no_overlap, s_no_overlap)]
    fn cmp_tf_tf() {
        let a = any_valid(); let b = any_valid();
        let o = order(&a, &b);
        vassert!(a.partial_cmp(&b) == Some(o), "partial_cmp(a,b) is the exact order");
        vassert!((a < b) == (o == Ordering::Less), "a < b");
        vassert!((a <= b) == (o != Ordering::Greater), "a <= b");
        vassert!((a > b) == (o == Ordering::Greater), "a > b");
        vassert!((a >= b) == (o != Ordering::Less), "a >= b");
        vassert!((a == b) == (o == Ordering::Equal), "a == b");
        vassert!((a != b) == (o != Ordering::Equal), "a != b");
        vcover!(a.hi == b.hi && a.lo < b.lo, "pairs differing only in the low word reachable");
        vcover!(o == Ordering::Equal && a.lo.to_bits() != b.lo.to_bits(), "equal values differing in the sign of a zero word reachable");
    }

    /// valid a, any f64 c, both argument orders (c promoted exactly)
    #[kani::solver(kissat)]
    fn cmp_tf_f64() {
        let a = any_valid(); let c = any_f64!();
        if c.is_nan() {
            vassert!(a.partial_cmp(&c).is_none() && c.partial_cmp(&a).is_none(), "NaN is unordered");
            vassert!(!(a == c) && !(c == a) && !(a < c) && !(a > c) && !(c < a) && !(c > a) && !(a <= c) && !(a >= c), "NaN compares false");
        } else if c.is_infinite() {
            let o = if c > 0.0 { Ordering::Less } else { Ordering::Greater };
            vassert!(a.partial_cmp(&c) == Some(o) && c.partial_cmp(&a) == Some(o.reverse()), "finite value against infinity");
            vassert!(!(a == c) && !(c == a), "finite value never equals infinity");
        } else {
            let cc = TwoFloat { hi: c, lo: 0.0 };
            let o = order(&a, &cc);
            vassert!(a.partial_cmp(&c) == Some(o), "partial_cmp(TwoFloat, f64) is the exact order");
            vassert!(c.partial_cmp(&a) == Some(o.reverse()), "partial_cmp(f64, TwoFloat) is the exact order");
            vassert!((a == c) == (o == Ordering::Equal) && (c == a) == (o == Ordering::Equal), "== against f64, both orders");
            vassert!((a < c) == (o == Ordering::Less) && (c > a) == (o == Ordering::Less), "< against f64, both orders");
            vassert!((a > c) == (o == Ordering::Greater) && (c < a) == (o == Ordering::Greater), "> against f64, both orders");
            vassert!((a <= c) == (o != Ordering::Greater) && (c >= a) == (o != Ordering::Greater), "<= against f64, both orders");
            vassert!((a >= c) == (o != Ordering::Less) && (c <= a) == (o != Ordering::Less), ">= against f64, both orders");
            vcover!(a.hi == c && a.lo < 0.0, "value just below c reachable");
        }
    }

    /// every pair of word patterns: == is symmetric
    #[kani::solver(kissat)]
    #[kani::stub(crate::base::no_overlap, s_no_overlap)]
    fn eq_symmetric() {
        let a = any_tf(); let b = any_tf();
        vassert!((a == b) == (b == a), "a == b iff b == a");
        vcover!(a == b && a.hi.is_infinite(), "equal infinities reachable");
    }

    /// every pair of word patterns: == holds precisely when partial_cmp is Some(Equal)
    #[kani::solver(kissat)]
    #[kani::stub(crate::base::no_overlap, s_no_overlap)]
    fn eq_iff_cmp_equal() {
        let a = any_tf(); let b = any_tf();
        vassert!((a == b) == (a.partial_cmp(&b) == Some(Ordering::Equal)), "a == b iff partial_cmp(a,b) == Some(Equal)");
        vcover!(a == b, "equal reachable");
    }

    /// an operand with a NaN word (high or low) is unequal and unordered to every value, both orders
    #[kani::solver(kissat)]
    #[kani::stub(crate::base::no_overlap, s_no_overlap)]
    fn nan_unordered() {
        let a = any_tf(); let b = any_tf();
        vassume!(has_nan(&a));
        vassert!(!(a == b) && !(b == a), "NaN-bearing operand is unequal in both orders");
        vassert!(a != b && b != a, "!= holds in both orders");
        vassert!(a.partial_cmp(&b).is_none() && b.partial_cmp(&a).is_none(), "NaN-bearing operand is unordered in both orders");
        vcover!(!a.hi.is_nan() && a.lo.is_nan() && b.hi.is_infinite(), "(inf,NaN) against infinity reachable");
    }

    /// min / max
    #[kani::solver(kissat)]
    #[kani::stub(crate::base::no_overlap, s_no_overlap)]
    fn min_max() {
        let a = any_tf(); let b = any_tf();
        let va = valid(a.hi, a.lo); let vb = valid(b.hi, b.lo);
        let mn = a.min(b); let mx = a.max(b);
        vassert!(same_tf(&mn, &a) || same_tf(&mn, &b), "min returns one of its operands");
        vassert!(same_tf(&mx, &a) || same_tf(&mx, &b), "max returns one of its operands");
        if va && vb {
            let o = order(&a, &b);
            vassert!(order(&mn, &a) != Ordering::Greater && order(&mn, &b) != Ordering::Greater, "min is not larger than either operand");
            vassert!(order(&mx, &a) != Ordering::Less && order(&mx, &b) != Ordering::Less, "max is not smaller than either operand");
            vcover!(o == Ordering::Greater, "a > b reachable");
        } else if va {
            vassert!(same_tf(&mn, &a) && same_tf(&mx, &a), "invalid second operand is skipped");
        } else if vb {
            vassert!(same_tf(&mn, &b) && same_tf(&mx, &b), "invalid first operand is skipped");
        }
    }

    /// abs, is_sign_*, signum, copysign on valid operands
    #[kani::solver(kissat)]
    #[kani::stub(crate::base::no_overlap, s_no_overlap)]
    fn sign_queries() {
        let x = any_valid(); let s = any_valid();
        let r = x.abs();
        // words of |x|: by lemma_sign the value is negative iff hi < 0
        #[cfg(kani)]
        {
            if x.hi < 0.0 { vassert!(r.hi == -x.hi && r.lo == -x.lo, "abs negates a negative value"); }
            else { vassert!(r.hi == x.hi && r.lo == x.lo && !(r.hi < 0.0), "abs keeps a non-negative value"); }
        }
        #[cfg(not(kani))]
        { vassert!(val(&r).eq(val(&x).abs()), "abs(x) has exact value |x|"); }
        vassert!(valid(r.hi, r.lo), "abs(x) is valid");
        if x.hi != 0.0 {
            #[cfg(kani)] let neg = x.hi < 0.0;
            #[cfg(not(kani))] let neg = val(&x).is_neg();
            vassert!(x.is_sign_negative() == neg && x.is_sign_positive() == !neg, "is_sign_negative/positive reflect the sign of the exact value");
            let g = x.signum();
            vassert!(g.hi == (if neg { -1.0 } else { 1.0 }) && g.lo == 0.0, "signum is +-1 with the sign of the exact value");
            if s.hi != 0.0 {
                #[cfg(kani)] let sneg = s.hi < 0.0;
                #[cfg(not(kani))] let sneg = val(&s).is_neg();
                let c = x.copysign(&s);
                if sneg == neg { vassert!(c.hi == x.hi && c.lo == x.lo, "copysign keeps x when the signs agree"); }
                else { vassert!(c.hi == -x.hi && c.lo == -x.lo, "copysign negates x when the signs differ"); }
                vcover!(sneg != neg, "differing signs reachable");
            }
        }
    }

    /// signum of an invalid value is NaN
    #[kani::solver(kissat)]
    #[kani::stub(crate::base::no_overlap, s_no_overlap)]
    fn signum_invalid() {
        let x = any_tf();
        vassume!(!valid(x.hi, x.lo));
        let g = x.signum();
        vassert!(g.hi.is_nan(), "signum of an invalid value is NaN");
    }

    /// Lemma L-sign: the exact value of a valid pair has the sign of its high word, and is zero iff hi == 0
    #[kani::solver(kissat)]
    #[kani::unwind(40)]
    fn lemma_sign() {
        let a = any_valid();
        let s = val(&a).sign();
        vassert!((s < 0) == (a.hi < 0.0), "value negative iff hi < 0");
        vassert!((s == 0) == (a.hi == 0.0), "value zero iff hi == 0");
        vcover!(a.lo != 0.0 && (a.lo < 0.0) != (a.hi < 0.0), "opposite-sign low word reachable");
    }

    /// Lemma L-mono (two f64, bit patterns): for finite h < k the neighbours are ordered, succ(h) <= k and h <= pred(k),
    /// with succ(h) == k exactly when pred(k) == h, and adjacent floats differ in the parity of their last bit.
    /// Adding the two inequalities (a step on the reals, not mechanised) gives h + succ h <= pred k + k; with
    /// L-bracket (2 val(x) <= h + succ h, pred k + k <= 2 val(y), ties only for even high words) this is L-lex for
    /// pairs with different high words: the chain cannot collapse to equality because that needs h and k both even
    /// while adjacent.  (For equal high words lexicographic order is the order of the low words.)
    #[kani::solver(kissat)]
    fn lemma_mono_neighbours() {
        let h = any_f64!(); let k = any_f64!();
        vassume!(h.is_finite() && k.is_finite() && h < k && h.abs() < 1.0e308 && k.abs() < 1.0e308);
        vassert!(succ(h) <= k && h <= pred(k), "neighbours are ordered: succ(h) <= k and h <= pred(k)");
        vassert!((succ(h) == k) == (pred(k) == h), "succ(h) == k exactly when pred(k) == h");
        vassert!(succ(h) != k || h == 0.0 || k == 0.0 || (h.to_bits() & 1) != (k.to_bits() & 1), "adjacent non-zero floats differ in the parity of the last bit");
        vcover!(succ(h) == k && h != 0.0 && k != 0.0, "adjacent reachable");
    }

    // Lemma L-bracket (one pair, Fix), eight cases; with monotonicity of succ/pred on bit
    // patterns and transitivity on the reals it gives L-lex (lexicographic == exact order).
    #[kani::solver(kissat)] #[kani::unwind(40)] fn lemma_bracket_p0() { bracket_case(0, false) }
    #[kani::solver(kissat)] #[kani::unwind(40)] fn lemma_bracket_p1() { bracket_case(1, false) }
    #[kani::solver(kissat)] #[kani::unwind(40)] fn lemma_bracket_p2() { bracket_case(2, false) }
    #[kani::solver(kissat)] #[kani::unwind(40)] fn lemma_bracket_p3() { bracket_case(3, false) }
    #[kani::solver(kissat)] #[kani::unwind(40)] fn lemma_bracket_n0() { bracket_case(0, true) }
    #[kani::solver(kissat)] #[kani::unwind(40)] fn lemma_bracket_n1() { bracket_case(1, true) }
    #[kani::solver(kissat)] #[kani::unwind(40)] fn lemma_bracket_n2() { bracket_case(2, true) }
    #[kani::solver(kissat)] #[kani::unwind(40)] fn lemma_bracket_n3() { bracket_case(3, true) }
}
