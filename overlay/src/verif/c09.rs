//! C09 — integer and float conversions are exact, range-checked and round-trip.
use super::contracts::*;
use super::spec::fix::{fx, Fix};
use super::spec::*;
use crate::TwoFloat;
use core::convert::TryFrom;
use core::sync::atomic::{AtomicU64, Ordering::Relaxed};

// ---- contract stub of TwoFloat::trunc (its contract is proved under C08): the
// result is a valid pair whose exact value is trunc(hi + lo); recorded as ghost
// state so the obligation can speak about the value the body saw.
static G_TR_H: AtomicU64 = AtomicU64::new(0);
static G_TR_L: AtomicU64 = AtomicU64::new(0);
#[cfg(kani)]
pub fn s_trunc(x: TwoFloat) -> TwoFloat {
    assert!(valid(x.hi, x.lo), "callee precondition: trunc contract is stated for valid operands");
    let r: TwoFloat = kani::any();
    let (p, q) = super::c08::trunc_pair(x.hi, x.lo);
    kani::assume(valid(r.hi, r.lo) && exact2(r.hi, r.lo, p, q));
    G_TR_H.store(r.hi.to_bits(), Relaxed);
    G_TR_L.store(r.lo.to_bits(), Relaxed);
    r
}
fn ghost_trunc() -> TwoFloat { TwoFloat { hi: f64::from_bits(G_TR_H.load(Relaxed)), lo: f64::from_bits(G_TR_L.load(Relaxed)) } }

/// significant bits of |n| (distance from the highest to the lowest set bit, inclusive)
fn sig_bits(m: u128) -> u32 { if m == 0 { 0 } else { 128 - m.leading_zeros() - m.trailing_zeros() } }

macro_rules! from_small { ($name:ident, $t:ty) => {
    /// From<small int>: exact, zero low word (all values of the type)
    pub fn $name() {
        let n = any_int!($t);
        let r = TwoFloat::from(n);
        vassert!(r.lo == 0.0 && r.hi.is_finite(), "From<int>: zero low word, finite");
        vassert!(fx(r.hi).eq(Fix::from_i128(n as i128)), "From<int>: exact value is n");
        vassert!(valid(r.hi, r.lo), "From<int>: valid");
        let p = <TwoFloat as num_traits::FromPrimitive>::from_i128(n as i128);
        let _ = p;
    }
}; }
macro_rules! from_big_valid { ($name:ident, $t:ty) => {
    /// From<64/128-bit int>: the result is a valid TwoFloat (all values of the type).  (A first version also demanded
    /// hi == RN(n); the property does not, and the renormalised result legitimately moves to the neighbouring
    /// high word when the rounded remainder is a half-ulp tie next to an odd RN(n) - removed as a false alarm.)
    pub fn $name() {
        let n = any_int!($t);
        let r = TwoFloat::from(n);
        vassert!(valid(r.hi, r.lo), "From<int>: result is a valid TwoFloat");
        vcover!(r.lo != 0.0, "non-zero low word reachable");
    }
}; }
macro_rules! from_big { ($name:ident, $t:ty, $wide:expr) => {
    /// From<64/128-bit int>: valid; exact up to 106 significant bits, else within 2^-106 |n|
    pub fn $name() {
        let n = any_int!($t);
        let r = TwoFloat::from(n);
        let neg = (n as i128) < 0 && !$wide;
        #[allow(unused_comparisons)]
        let isneg = n < 0;
        let mag: u128 = if isneg { (n as i128).unsigned_abs() } else { n as u128 };
        let _ = neg;
        let exact = Fix::from_u128(mag, isneg);
        vassert!(valid(r.hi, r.lo), "From<int>: result is a valid TwoFloat");
        let err = val(&r).sub(exact);
        if sig_bits(mag) <= 106 { vassert!(err.is_zero(), "From<int>: exact for at most 106 significant bits"); }
        else { vassert!(Fix::rel_le(err, exact, 1, 106), "From<int>: within 2^-106 |n|"); }
        vcover!(r.lo != 0.0, "non-zero low word reachable");
    }
}; }

macro_rules! try_small { ($name:ident, $nf:ident, $rt:ident, $t:ty) => {
    /// T::try_from(x), valid x: Ok(t) iff T::MIN <= trunc(value) <= T::MAX, and then t == trunc(value)
    pub fn $name() {
        let x = any_valid();
        let res = <$t>::try_from(x);
        let res2 = <$t>::try_from(&x);
        #[cfg(kani)] let tv = val(&ghost_trunc());
        #[cfg(not(kani))] let tv = val(&x).trunc();
        let lo = Fix::from_i128(<$t>::MIN as i128);
        let hi = Fix::from_u128(<$t>::MAX as u128, false);
        let inr = lo.le(tv) && tv.le(hi);
        match res {
            Ok(t) => {
                vassert!(inr, "try_from is Ok only when trunc(value) is in range");
                #[allow(unused_comparisons)]
                let e = Fix::from_u128(if t < 0 { (t as i128).unsigned_abs() } else { t as u128 }, t < 0);
                vassert!(e.eq(tv), "try_from returns trunc(value) exactly");
                vassert!(matches!(res2, Ok(t2) if t2 == t), "by-reference form agrees");
                vcover!(x.lo != 0.0, "Ok with non-zero low word reachable");
            }
            Err(_) => {
                vassert!(!inr, "try_from is Err only when trunc(value) is out of range");
                vassert!(res2.is_err(), "by-reference form agrees");
            }
        }
        // ToPrimitive route
        #[cfg(not(kani))]
        { let _ = 0; }
    }
    /// non-finite x is rejected
    pub fn $nf() {
        let x = any_tf();
        vassume!(!x.hi.is_finite());
        vassert!(<$t>::try_from(x).is_err() && <$t>::try_from(&x).is_err(), "try_from of a non-finite value is Err");
    }
    /// T::try_from(TwoFloat::from(n)) == Ok(n) for every n of the type
    pub fn $rt() {
        let n = any_int!($t);
        let x = TwoFloat::from(n);
        vassert!(matches!(<$t>::try_from(x), Ok(m) if m == n), "round trip through TwoFloat returns n");
    }
}; }

from_small!(from_i8_body, i8);
from_small!(from_i16_body, i16);
from_small!(from_i32_body, i32);
from_small!(from_u8_body, u8);
from_small!(from_u16_body, u16);
from_small!(from_u32_body, u32);
from_big_valid!(from_i64_valid_body, i64);
from_big_valid!(from_u64_valid_body, u64);
from_big_valid!(from_i128_valid_body, i128);
from_big_valid!(from_u128_valid_body, u128);
from_big!(from_i64_body, i64, false);
from_big!(from_u64_body, u64, false);
from_big!(from_i128_body, i128, true);
from_big!(from_u128_body, u128, true);
try_small!(try_i8_body, nf_i8_body, rt_i8_body, i8);
try_small!(try_i16_body, nf_i16_body, rt_i16_body, i16);
try_small!(try_i32_body, nf_i32_body, rt_i32_body, i32);
try_small!(try_i64_body, nf_i64_body, rt_i64_body, i64);
try_small!(try_i128_body, nf_i128_body, rt_i128_body, i128);
try_small!(try_u8_body, nf_u8_body, rt_u8_body, u8);
try_small!(try_u16_body, nf_u16_body, rt_u16_body, u16);
try_small!(try_u32_body, nf_u32_body, rt_u32_body, u32);
try_small!(try_u64_body, nf_u64_body, rt_u64_body, u64);
try_small!(try_u128_body, nf_u128_body, rt_u128_body, u128);

harnesses! {
    #[kani::solver(kissat)] #[kani::unwind(40)] fn from_i8() { from_i8_body() }
    #[kani::solver(kissat)] #[kani::unwind(40)] fn from_i16() { from_i16_body() }
    #[kani::solver(kissat)] #[kani::unwind(40)] fn from_i32() { from_i32_body() }
    #[kani::solver(kissat)] #[kani::unwind(40)] fn from_u8() { from_u8_body() }
    #[kani::solver(kissat)] #[kani::unwind(40)] fn from_u16() { from_u16_body() }
    #[kani::solver(kissat)] #[kani::unwind(40)] fn from_u32() { from_u32_body() }
    #[kani::solver(kissat)] #[kani::unwind(6)] fn from_i64_valid() { from_i64_valid_body() }
    #[kani::solver(kissat)] #[kani::unwind(6)] fn from_u64_valid() { from_u64_valid_body() }
    #[kani::solver(kissat)] #[kani::unwind(6)] fn from_i128_valid() { from_i128_valid_body() }
    #[kani::solver(kissat)] #[kani::unwind(6)] fn from_u128_valid() { from_u128_valid_body() }
    #[kani::solver(kissat)] #[kani::unwind(40)] fn from_i64() { from_i64_body() }
    #[kani::solver(kissat)] #[kani::unwind(40)] fn from_u64() { from_u64_body() }
    #[kani::solver(kissat)] #[kani::unwind(40)] fn from_i128() { from_i128_body() }
    #[kani::solver(kissat)] #[kani::unwind(40)] fn from_u128() { from_u128_body() }

    #[kani::solver(kissat)] #[kani::unwind(40)] #[kani::stub(TwoFloat::trunc, s_trunc)] #[kani::stub(crate::base::no_overlap, s_no_overlap)] fn try_i8() { try_i8_body() }
    #[kani::solver(kissat)] #[kani::unwind(40)] #[kani::stub(TwoFloat::trunc, s_trunc)] #[kani::stub(crate::base::no_overlap, s_no_overlap)] fn try_i16() { try_i16_body() }
    #[kani::solver(kissat)] #[kani::unwind(40)] #[kani::stub(TwoFloat::trunc, s_trunc)] #[kani::stub(crate::base::no_overlap, s_no_overlap)] fn try_i32() { try_i32_body() }
    #[kani::solver(kissat)] #[kani::unwind(40)] #[kani::stub(TwoFloat::trunc, s_trunc)] #[kani::stub(crate::base::no_overlap, s_no_overlap)] fn try_i64() { try_i64_body() }
    #[kani::solver(kissat)] #[kani::unwind(40)] #[kani::stub(TwoFloat::trunc, s_trunc)] #[kani::stub(crate::base::no_overlap, s_no_overlap)] fn try_i128() { try_i128_body() }
    #[kani::solver(kissat)] #[kani::unwind(40)] #[kani::stub(TwoFloat::trunc, s_trunc)] #[kani::stub(crate::base::no_overlap, s_no_overlap)] fn try_u8() { try_u8_body() }
    #[kani::solver(kissat)] #[kani::unwind(40)] #[kani::stub(TwoFloat::trunc, s_trunc)] #[kani::stub(crate::base::no_overlap, s_no_overlap)] fn try_u16() { try_u16_body() }
    #[kani::solver(kissat)] #[kani::unwind(40)] #[kani::stub(TwoFloat::trunc, s_trunc)] #[kani::stub(crate::base::no_overlap, s_no_overlap)] fn try_u32() { try_u32_body() }
    #[kani::solver(kissat)] #[kani::unwind(40)] #[kani::stub(TwoFloat::trunc, s_trunc)] #[kani::stub(crate::base::no_overlap, s_no_overlap)] fn try_u64() { try_u64_body() }
    #[kani::solver(kissat)] #[kani::unwind(40)] #[kani::stub(TwoFloat::trunc, s_trunc)] #[kani::stub(crate::base::no_overlap, s_no_overlap)] fn try_u128() { try_u128_body() }

    #[kani::solver(kissat)] #[kani::unwind(6)] #[kani::stub(crate::base::no_overlap, s_no_overlap)] fn nonfinite_i8() { nf_i8_body() }
    #[kani::solver(kissat)] #[kani::unwind(6)] #[kani::stub(crate::base::no_overlap, s_no_overlap)] fn nonfinite_i16() { nf_i16_body() }
    #[kani::solver(kissat)] #[kani::unwind(6)] #[kani::stub(crate::base::no_overlap, s_no_overlap)] fn nonfinite_i32() { nf_i32_body() }
    #[kani::solver(kissat)] #[kani::unwind(6)] #[kani::stub(crate::base::no_overlap, s_no_overlap)] fn nonfinite_i64() { nf_i64_body() }
    #[kani::solver(kissat)] #[kani::unwind(6)] #[kani::stub(crate::base::no_overlap, s_no_overlap)] fn nonfinite_i128() { nf_i128_body() }
    #[kani::solver(kissat)] #[kani::unwind(6)] #[kani::stub(crate::base::no_overlap, s_no_overlap)] fn nonfinite_u8() { nf_u8_body() }
    #[kani::solver(kissat)] #[kani::unwind(6)] #[kani::stub(crate::base::no_overlap, s_no_overlap)] fn nonfinite_u16() { nf_u16_body() }
    #[kani::solver(kissat)] #[kani::unwind(6)] #[kani::stub(crate::base::no_overlap, s_no_overlap)] fn nonfinite_u32() { nf_u32_body() }
    #[kani::solver(kissat)] #[kani::unwind(6)] #[kani::stub(crate::base::no_overlap, s_no_overlap)] fn nonfinite_u64() { nf_u64_body() }
    #[kani::solver(kissat)] #[kani::unwind(6)] #[kani::stub(crate::base::no_overlap, s_no_overlap)] fn nonfinite_u128() { nf_u128_body() }

    #[kani::solver(kissat)] #[kani::unwind(6)] #[kani::stub(crate::base::no_overlap, s_no_overlap)] fn roundtrip_i8() { rt_i8_body() }
    #[kani::solver(kissat)] #[kani::unwind(6)] #[kani::stub(crate::base::no_overlap, s_no_overlap)] fn roundtrip_i16() { rt_i16_body() }
    #[kani::solver(kissat)] #[kani::unwind(6)] #[kani::stub(crate::base::no_overlap, s_no_overlap)] fn roundtrip_i32() { rt_i32_body() }
    #[kani::solver(kissat)] #[kani::unwind(6)] #[kani::stub(crate::base::no_overlap, s_no_overlap)] fn roundtrip_u8() { rt_u8_body() }
    #[kani::solver(kissat)] #[kani::unwind(6)] #[kani::stub(crate::base::no_overlap, s_no_overlap)] fn roundtrip_u16() { rt_u16_body() }
    #[kani::solver(kissat)] #[kani::unwind(6)] #[kani::stub(crate::base::no_overlap, s_no_overlap)] fn roundtrip_u32() { rt_u32_body() }
    #[kani::solver(kissat)] #[kani::unwind(6)] #[kani::stub(crate::base::no_overlap, s_no_overlap)] fn roundtrip_i64() { rt_i64_body() }
    #[kani::solver(kissat)] #[kani::unwind(6)] #[kani::stub(crate::base::no_overlap, s_no_overlap)] fn roundtrip_u64() { rt_u64_body() }

    /// float conversions
    #[kani::solver(kissat)]
    fn float_conversions() {
        let x = any_tf();
        let a: f64 = x.into(); let b: f64 = (&x).into();
        vassert!(same(a, x.hi) && same(b, x.hi), "f64::from(x) is the high word");
        let c: f32 = x.into(); let d: f32 = (&x).into();
        let e = x.hi as f32;
        vassert!((c.to_bits() == e.to_bits() || (c.is_nan() && e.is_nan())) && (d.to_bits() == e.to_bits() || (d.is_nan() && e.is_nan())), "f32::from(x) is the high word rounded to f32");
        let f = any_int!(u32); let f = f32::from_bits(f);
        let t = TwoFloat::from(f);
        vassert!(same(t.hi, f as f64) && t.lo == 0.0, "From<f32> is exact with a zero low word");
        vassert!(!f.is_finite() || (t.hi as f32).to_bits() == f.to_bits(), "From<f32> round-trips");
    }

    /// ToPrimitive / FromPrimitive / NumCast routes agree with the inherent conversions
    #[kani::solver(kissat)] #[kani::unwind(6)] #[kani::stub(TwoFloat::trunc, s_trunc)] #[kani::stub(crate::base::no_overlap, s_no_overlap)]
    fn to_primitive_routes() {
        use num_traits::ToPrimitive;
        let x = any_valid();
        vassert!(x.to_i64() == i64::try_from(&x).ok(), "to_i64 == i64::try_from(..).ok()");
        vassert!(ToPrimitive::to_f64(&x) == Some(x.hi), "to_f64 == Some(hi)");
    }
    #[kani::solver(kissat)] #[kani::unwind(6)]
    fn from_primitive_routes() {
        use num_traits::FromPrimitive;
        let n = any_int!(i64); let m = any_int!(u64); let k = any_int!(i32);
        vassert!(matches!(TwoFloat::from_i64(n), Some(t) if same_tf(&t, &TwoFloat::from(n))), "from_i64 == Some(From<i64>)");
        vassert!(matches!(TwoFloat::from_u64(m), Some(t) if same_tf(&t, &TwoFloat::from(m))), "from_u64 == Some(From<u64>)");
        vassert!(matches!(TwoFloat::from_i32(k), Some(t) if same_tf(&t, &TwoFloat::from(k))), "from_i32 == Some(From<i32>)");
    }
    /// NumCast::from(n) for an i64 n represents n exactly
    #[kani::solver(kissat)] #[kani::unwind(40)]
    fn numcast_i64_exact() {
        let n = any_int!(i64);
        let r = <TwoFloat as num_traits::NumCast>::from(n);
        match r {
            Some(t) => { vassert!(valid(t.hi, t.lo) && val(&t).eq(Fix::from_i128(n as i128)), "NumCast::from(i64) is exact"); }
            None => { vassert!(false, "NumCast::from(i64) returns a value"); }
        }
    }
}
