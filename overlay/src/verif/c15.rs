//! C15 — logarithms: totality, exact points, domain errors, quotient identities.
use super::contracts::*;
use super::spec::*;
use crate::TwoFloat;

pub mod solver {
    use super::*;
    hv_harnesses! {
        /// ln, log2, log10, ln_1p, log never panic on valid arguments (exp / exp2 / exp_m1 value-independent:
        /// their own totality is C14's)
        #[kani::solver(kissat)] #[kani::unwind(8)]
        #[kani::stub(TwoFloat::exp, h_unary)] #[kani::stub(TwoFloat::exp2, h_unary)] #[kani::stub(TwoFloat::exp_m1, h_unary)]
        fn logs_no_panic() {
            let x = any_valid(); let b = any_valid();
            let _ = (x.ln(), x.log2(), x.log10(), x.ln_1p(), x.log(b));
            vcover!(x.hi > 0.0 && x.hi != 1.0, "Newton path reachable");
        }
        /// domain errors: ln, log2, log10 of x <= 0 and ln_1p of x <= -1 are invalid
        #[kani::solver(kissat)] #[kani::unwind(8)]
        #[kani::stub(TwoFloat::exp, h_unary)] #[kani::stub(TwoFloat::exp2, h_unary)] #[kani::stub(TwoFloat::exp_m1, h_unary)]
        #[kani::stub(<&TwoFloat as core::ops::Sub<&f64>>::sub, h_tf)]
        fn logs_domain() {
            let x = any_valid();
            if x.hi <= 0.0 {
                let (a, b) = (x.ln(), x.log2());
                vassert!(!valid(a.hi, a.lo), "ln(x <= 0) is invalid");
                vassert!(!valid(b.hi, b.lo), "log2(x <= 0) is invalid");
            }
            if x.hi < -1.0 || (x.hi == -1.0 && x.lo <= 0.0) {
                let c = x.ln_1p();
                vassert!(!valid(c.hi, c.lo), "ln_1p(x <= -1) is invalid");
            }
            vcover!(x.hi == -1.0 && x.lo < 0.0, "just below -1 reachable");
        }
    }
}

harnesses! {
    /// log(x, b) == x.ln() / b.ln() and log10(x) == x.ln() / LN_10, bit for bit (ln an arbitrary fixed function)
    #[kani::solver(kissat)] #[kani::stub(TwoFloat::ln, super::c10::ack_ln)] #[kani::stub(<&TwoFloat as core::ops::Div<&TwoFloat>>::div, super::c10::ack_div_tt)]
    fn log10_is_quotient() {
        let x = any_tf();
        let ln10 = TwoFloat { hi: f64::from_bits(super::c12_data::EXPECTED[23].1), lo: f64::from_bits(super::c12_data::EXPECTED[23].2) };
        vassert!(same_tf(&x.log10(), &(x.ln() / ln10)), "log10(x) == x.ln() / RN2(ln 10)");
    }
    /// exact points (ground, native)
    fn exact_points() {
        let one = TwoFloat::from(1.0); let z = TwoFloat::from(0.0);
        let is0 = |r: TwoFloat| r.hi() == 0.0 && r.lo() == 0.0;
        vassert!(is0(one.ln()), "ln(1) == 0");
        vassert!(is0(one.log2()), "log2(1) == 0");
        vassert!(is0(one.log10()), "log10(1) == 0");
        vassert!(is0(z.ln_1p()), "ln_1p(0) == 0");
        vassert!(!z.ln().is_valid() && !TwoFloat::from(-1.0).ln().is_valid() && !z.log2().is_valid() && !z.log10().is_valid() && !TwoFloat::from(-2.5).log10().is_valid(), "logs of x <= 0 are invalid");
        vassert!(!TwoFloat::from(-1.0).ln_1p().is_valid() && !TwoFloat::from(-1.5).ln_1p().is_valid(), "ln_1p(x <= -1) is invalid");
        let x = TwoFloat::from(7.25); let b = TwoFloat::from(3.0);
        vassert!(same_tf(&x.log(b), &(x.ln() / b.ln())), "log(x, b) == x.ln() / b.ln() bit for bit");
    }
    /// log2(2^k) == k exactly for every integer k in [-1000, 960]
    fn log2_powers_of_two() {
        let mut k = -1000i32; let mut bad = 0u32;
        while k <= 960 {
            let x = TwoFloat::from(f64::from_bits(((k + 1023) as u64) << 52));
            let r = x.log2();
            if !(r.hi() == k as f64 && r.lo() == 0.0) { bad += 1; }
            k += 1;
        }
        vassert!(bad == 0, "log2(2^k) == k exactly for all k in [-1000, 960]");
    }
}
