//! Native replay / ground-evaluation entry point (only with `--cfg verif_replay`).
//! Runs one harness on recorded inputs through the real, un-stubbed code and
//! reports which clauses fail (Layer-1 predicates, panics caught).
extern crate std;
use std::format;
use std::string::{String, ToString};
use std::vec::Vec;

fn esc(s: &str) -> String { s.replace('\\', "\\\\").replace('"', "\\\"").replace('\n', " ") }

pub fn run_one(name: &str, inputs: Vec<(usize, u128)>) -> String {
    let f = match super::table().find(|(n, _)| *n == name || n.strip_prefix("twofloat::verif::") == Some(name)) {
        Some((_, f)) => *f,
        None => return format!("{{\"harness\":\"{}\",\"status\":\"unknown-harness\"}}", esc(name)),
    };
    super::rt::reset(inputs);
    let prev = std::panic::take_hook();
    std::panic::set_hook(std::boxed::Box::new(|_| {}));
    let res = std::panic::catch_unwind(|| f());
    std::panic::set_hook(prev);
    let ctx = super::rt::take();
    let mut failures: Vec<String> = ctx.failures.clone();
    let mut status = "pass";
    if let Err(e) = res {
        let msg = if let Some(s) = e.downcast_ref::<&str>() { s.to_string() } else if let Some(s) = e.downcast_ref::<String>() { s.clone() } else { "panic".to_string() };
        if ctx.skipped.is_none() { failures.push(format!("panic: {}", msg)); }
    }
    if ctx.skipped.is_some() { status = "skipped"; }
    else if !failures.is_empty() { status = "fail"; }
    if ctx.underflow || ctx.size_mismatch { status = if status == "fail" { "fail-inputs-mismatch" } else { "inputs-mismatch" }; }
    let drawn: Vec<String> = ctx.drawn.iter().map(|(s, v)| format!("\"{}:{:x}\"", s, v)).collect();
    let fl: Vec<String> = failures.iter().map(|s| format!("\"{}\"", esc(s))).collect();
    format!("{{\"harness\":\"{}\",\"status\":\"{}\",\"skipped_on\":{},\"failures\":[{}],\"drawn\":[{}]}}",
        esc(name), status,
        match &ctx.skipped { Some(s) => format!("\"{}\"", esc(s)), None => "null".to_string() },
        fl.join(","), drawn.join(","))
}

pub fn replay_main() {
    let args: Vec<String> = std::env::args().collect();
    if args.len() >= 2 && args[1] == "list" {
        for (n, _) in super::table() { std::println!("{}", n); }
        return;
    }
    if args.len() >= 3 && args[1] == "run" {
        let mut inputs = Vec::new();
        for a in &args[3..] {
            let mut it = a.split(':');
            let s: usize = it.next().unwrap().parse().unwrap();
            let v = u128::from_str_radix(it.next().unwrap(), 16).unwrap();
            inputs.push((s, v));
        }
        std::println!("{}", run_one(&args[2], inputs));
        return;
    }
    if args.len() >= 2 && args[1] == "selftest" {
        let n: u64 = if args.len() >= 3 { args[2].parse().unwrap() } else { 200000 };
        let seed: u64 = if args.len() >= 4 { args[3].parse().unwrap() } else { 1 };
        std::process::exit(super::selftest::run(n, seed));
    }
    std::eprintln!("usage: verif_replay list | run <harness> [size:hex ...] | selftest [n] [seed]");
    std::process::exit(2);
}
