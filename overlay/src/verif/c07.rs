//! C07 — validity predicate and checked construction implement Definition 1.4.
use super::contracts::*;
use super::spec::*;
use crate::TwoFloat;
use core::convert::TryFrom;

/// real body of `no_overlap` (incl. libm exp2/copysign/fabs) against its contract, all 2^128 pairs
#[cfg(kani)]
#[kani::proof_for_contract(c_no_overlap)]
#[kani::solver(kissat)]
fn no_overlap_contract() {
    let a: f64 = kani::any();
    let b: f64 = kani::any();
    let r = c_no_overlap(a, b);
    kani::cover!(r && b != 0.0, "accepting case with non-zero low word reachable");
    kani::cover!(!r && a.is_finite() && b.is_finite(), "rejecting finite case reachable");
}

harnesses! {
    /// same obligation as a plain harness (replayable natively)
    #[kani::solver(kissat)]
    fn no_overlap_def() {
        let a = any_f64!(); let b = any_f64!();
        let r = crate::no_overlap(a, b);
        vassert!(r == (a.is_finite() && a + b == a), "no_overlap(a,b) == (a finite && RN(a+b) == a)");
        vassert!(!r || b.is_finite(), "no_overlap(a,b) implies b finite");
        vcover!(r && b != 0.0, "accepting case reachable");
    }

    /// canary (vacuity guard): a deliberately false contract - "every finite pair is accepted" - must be REFUTED
    /// by the machinery on every run, with a model that replays natively
    #[kani::solver(kissat)]
    fn canary_accepts_everything() {
        let a = any_f64!(); let b = any_f64!();
        vassume!(a.is_finite() && b.is_finite());
        vassert!(crate::no_overlap(a, b), "CANARY (false on purpose): no_overlap accepts every finite pair");
    }

    /// Layer-2 lemma L0: valid_bits decides Definition 1.4
    #[kani::solver(kissat)]
    fn lemma_l0_valid_bits() {
        let a = any_f64!(); let b = any_f64!();
        vassert!(valid_bits(a, b) == valid_def(a, b), "valid_bits(a,b) == (a,b finite && RN(a+b) == a)");
        vcover!(valid_bits(a, b) && b != 0.0, "valid reachable");
    }

    /// is_valid() == finite && finite && Definition 1.4  (no_overlap replaced by its contract)
    #[kani::solver(kissat)]
    #[kani::stub(crate::base::no_overlap, s_no_overlap)]
    fn is_valid_def() {
        let x = any_tf();
        vassert!(x.is_valid() == valid_def(x.hi, x.lo), "is_valid() == both finite && RN(hi+lo) == hi");
        vcover!(x.is_valid() && x.lo != 0.0, "valid reachable");
        vcover!(!x.is_valid() && x.hi.is_finite() && x.lo.is_finite(), "overlapping reachable");
    }

    /// TryFrom<(f64,f64)>: Ok exactly on valid pairs, words preserved bit for bit, round trip
    #[kani::solver(kissat)]
    #[kani::stub(crate::base::no_overlap, s_no_overlap)]
    fn try_from_tuple() {
        let a = any_f64!(); let b = any_f64!();
        let ok = a.is_finite() && a + b == a;
        match TwoFloat::try_from((a, b)) {
            Ok(t) => {
                vassert!(ok, "try_from((a,b)) is Ok only on non-overlapping pairs");
                vassert!(t.hi.to_bits() == a.to_bits() && t.lo.to_bits() == b.to_bits(), "try_from((a,b)) preserves both words bit for bit");
                let (p, q): (f64, f64) = t.into();
                vassert!(p.to_bits() == a.to_bits() && q.to_bits() == b.to_bits(), "converting back returns the same tuple");
                let (p2, q2): (f64, f64) = (&t).into();
                vassert!(p2.to_bits() == a.to_bits() && q2.to_bits() == b.to_bits(), "converting back by reference returns the same tuple");
                vcover!(b != 0.0, "Ok with non-zero low word reachable");
            }
            Err(e) => {
                vassert!(!ok, "try_from((a,b)) is Err only on overlapping/non-finite pairs");
                vassert!(matches!(e, crate::TwoFloatError::ConversionError), "error is ConversionError");
                vcover!(a.is_finite() && b.is_finite(), "Err on finite pair reachable");
            }
        }
    }

    /// TryFrom<[f64;2]>
    #[kani::solver(kissat)]
    #[kani::stub(crate::base::no_overlap, s_no_overlap)]
    fn try_from_array() {
        let a = any_f64!(); let b = any_f64!();
        let ok = a.is_finite() && a + b == a;
        match TwoFloat::try_from([a, b]) {
            Ok(t) => {
                vassert!(ok, "try_from([a,b]) is Ok only on non-overlapping pairs");
                vassert!(t.hi.to_bits() == a.to_bits() && t.lo.to_bits() == b.to_bits(), "try_from([a,b]) preserves both words bit for bit");
                let r: [f64; 2] = t.into();
                vassert!(r[0].to_bits() == a.to_bits() && r[1].to_bits() == b.to_bits(), "converting back returns the same array");
                let r2: [f64; 2] = (&t).into();
                vassert!(r2[0].to_bits() == a.to_bits() && r2[1].to_bits() == b.to_bits(), "converting back by reference returns the same array");
                vcover!(b != 0.0, "Ok with non-zero low word reachable");
            }
            Err(e) => {
                vassert!(!ok, "try_from([a,b]) is Err only on overlapping/non-finite pairs");
                vassert!(matches!(e, crate::TwoFloatError::ConversionError), "error is ConversionError");
                vcover!(a.is_finite() && b.is_finite(), "Err on finite pair reachable");
            }
        }
    }
}
