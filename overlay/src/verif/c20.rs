//! C20 — serde is lossless and cannot create invalid values (build `--features serde`); text
//! formatting is checked natively on a structured sample only (the claims are statements about
//! core::fmt / f64::from_str, outside the crate and the solver).
use super::contracts::*;
use super::spec::*;
use crate::TwoFloat;

#[cfg(feature = "serde")]
pub mod sd {
    use super::*;
    use serde::de::{self, DeserializeSeed, Deserializer, MapAccess, SeqAccess, Visitor};
    use serde::ser::{self, Serialize, SerializeStruct, Serializer};
    use serde::Deserialize;

    #[derive(Debug)]
    pub struct E;
    impl core::fmt::Display for E { fn fmt(&self, _f: &mut core::fmt::Formatter) -> core::fmt::Result { Ok(()) } }
    impl de::StdError for E {}
    impl de::Error for E { fn custom<T: core::fmt::Display>(_msg: T) -> Self { E } }
    impl ser::Error for E { fn custom<T: core::fmt::Display>(_msg: T) -> Self { E } }

    struct F64De(f64);
    impl<'de> Deserializer<'de> for F64De {
        type Error = E;
        fn deserialize_any<V: Visitor<'de>>(self, v: V) -> Result<V::Value, E> { v.visit_f64(self.0) }
        serde::forward_to_deserialize_any! { bool i8 i16 i32 i64 i128 u8 u16 u32 u64 u128 f32 f64 char str string bytes byte_buf option unit unit_struct newtype_struct seq tuple tuple_struct map struct enum identifier ignored_any }
    }
    struct KeyDe(u8);
    impl<'de> Deserializer<'de> for KeyDe {
        type Error = E;
        fn deserialize_any<V: Visitor<'de>>(self, v: V) -> Result<V::Value, E> {
            match self.0 { 0 => v.visit_str("hi"), 1 => v.visit_str("lo"), _ => v.visit_str("zz") }
        }
        serde::forward_to_deserialize_any! { bool i8 i16 i32 i64 i128 u8 u16 u32 u64 u128 f32 f64 char str string bytes byte_buf option unit unit_struct newtype_struct seq tuple tuple_struct map struct enum identifier ignored_any }
    }
    struct Seq { vals: [f64; 3], len: usize, pos: usize }
    impl<'de> SeqAccess<'de> for Seq {
        type Error = E;
        fn next_element_seed<T: DeserializeSeed<'de>>(&mut self, seed: T) -> Result<Option<T::Value>, E> {
            if self.pos >= self.len { return Ok(None); }
            let v = self.vals[self.pos]; self.pos += 1;
            seed.deserialize(F64De(v)).map(Some)
        }
    }
    struct Map { keys: [u8; 3], vals: [f64; 3], len: usize, pos: usize }
    impl<'de> MapAccess<'de> for Map {
        type Error = E;
        fn next_key_seed<K: DeserializeSeed<'de>>(&mut self, seed: K) -> Result<Option<K::Value>, E> {
            if self.pos >= self.len { return Ok(None); }
            seed.deserialize(KeyDe(self.keys[self.pos])).map(Some)
        }
        fn next_value_seed<V: DeserializeSeed<'de>>(&mut self, seed: V) -> Result<V::Value, E> {
            let v = self.vals[self.pos]; self.pos += 1;
            seed.deserialize(F64De(v))
        }
    }
    enum Src { S(Seq), M(Map) }
    struct De(Src);
    impl<'de> Deserializer<'de> for De {
        type Error = E;
        fn deserialize_any<V: Visitor<'de>>(self, v: V) -> Result<V::Value, E> {
            match self.0 { Src::S(s) => v.visit_seq(s), Src::M(m) => v.visit_map(m) }
        }
        serde::forward_to_deserialize_any! { bool i8 i16 i32 i64 i128 u8 u16 u32 u64 u128 f32 f64 char str string bytes byte_buf option unit unit_struct newtype_struct seq tuple tuple_struct map struct enum identifier ignored_any }
    }

    /// recording serializer: accepts only `struct "TwoFloat"` with two f64 fields
    pub struct Rec { pub name_ok: bool, pub n: usize, pub keys: [u8; 2], pub vals: [u64; 2], pub bad: bool }
    pub struct RecF64(u64);
    macro_rules! no { ($($f:ident($t:ty))*) => { $( fn $f(self, _v: $t) -> Result<u64, E> { Err(E) } )* } }
    struct F64Ser;
    impl Serializer for F64Ser {
        type Ok = u64; type Error = E;
        type SerializeSeq = ser::Impossible<u64, E>; type SerializeTuple = ser::Impossible<u64, E>; type SerializeTupleStruct = ser::Impossible<u64, E>;
        type SerializeTupleVariant = ser::Impossible<u64, E>; type SerializeMap = ser::Impossible<u64, E>; type SerializeStruct = ser::Impossible<u64, E>;
        type SerializeStructVariant = ser::Impossible<u64, E>;
        fn serialize_f64(self, v: f64) -> Result<u64, E> { Ok(v.to_bits()) }
        no! { serialize_bool(bool) serialize_i8(i8) serialize_i16(i16) serialize_i32(i32) serialize_i64(i64) serialize_u8(u8) serialize_u16(u16) serialize_u32(u32) serialize_u64(u64) serialize_f32(f32) serialize_char(char) serialize_str(&str) serialize_bytes(&[u8]) }
        fn serialize_none(self) -> Result<u64, E> { Err(E) }
        fn serialize_some<T: ?Sized + Serialize>(self, _v: &T) -> Result<u64, E> { Err(E) }
        fn serialize_unit(self) -> Result<u64, E> { Err(E) }
        fn serialize_unit_struct(self, _n: &'static str) -> Result<u64, E> { Err(E) }
        fn serialize_unit_variant(self, _n: &'static str, _i: u32, _v: &'static str) -> Result<u64, E> { Err(E) }
        fn serialize_newtype_struct<T: ?Sized + Serialize>(self, _n: &'static str, _v: &T) -> Result<u64, E> { Err(E) }
        fn serialize_newtype_variant<T: ?Sized + Serialize>(self, _n: &'static str, _i: u32, _v: &'static str, _x: &T) -> Result<u64, E> { Err(E) }
        fn serialize_seq(self, _l: Option<usize>) -> Result<Self::SerializeSeq, E> { Err(E) }
        fn serialize_tuple(self, _l: usize) -> Result<Self::SerializeTuple, E> { Err(E) }
        fn serialize_tuple_struct(self, _n: &'static str, _l: usize) -> Result<Self::SerializeTupleStruct, E> { Err(E) }
        fn serialize_tuple_variant(self, _n: &'static str, _i: u32, _v: &'static str, _l: usize) -> Result<Self::SerializeTupleVariant, E> { Err(E) }
        fn serialize_map(self, _l: Option<usize>) -> Result<Self::SerializeMap, E> { Err(E) }
        fn serialize_struct(self, _n: &'static str, _l: usize) -> Result<Self::SerializeStruct, E> { Err(E) }
        fn serialize_struct_variant(self, _n: &'static str, _i: u32, _v: &'static str, _l: usize) -> Result<Self::SerializeStructVariant, E> { Err(E) }
    }
    impl SerializeStruct for Rec {
        type Ok = Rec; type Error = E;
        fn serialize_field<T: ?Sized + Serialize>(&mut self, key: &'static str, value: &T) -> Result<(), E> {
            let k = if key.len() == 2 && key.as_bytes()[0] == b'h' && key.as_bytes()[1] == b'i' { 0 } else if key.len() == 2 && key.as_bytes()[0] == b'l' && key.as_bytes()[1] == b'o' { 1 } else { 2 };
            if self.n < 2 { self.keys[self.n] = k; match value.serialize(F64Ser) { Ok(b) => self.vals[self.n] = b, Err(_) => self.bad = true } } else { self.bad = true; }
            self.n += 1;
            Ok(())
        }
        fn end(self) -> Result<Rec, E> { Ok(self) }
    }
    pub struct RecSer;
    macro_rules! no2 { ($($f:ident($t:ty))*) => { $( fn $f(self, _v: $t) -> Result<Rec, E> { Err(E) } )* } }
    impl Serializer for RecSer {
        type Ok = Rec; type Error = E;
        type SerializeSeq = ser::Impossible<Rec, E>; type SerializeTuple = ser::Impossible<Rec, E>; type SerializeTupleStruct = ser::Impossible<Rec, E>;
        type SerializeTupleVariant = ser::Impossible<Rec, E>; type SerializeMap = ser::Impossible<Rec, E>; type SerializeStruct = Rec;
        type SerializeStructVariant = ser::Impossible<Rec, E>;
        no2! { serialize_bool(bool) serialize_i8(i8) serialize_i16(i16) serialize_i32(i32) serialize_i64(i64) serialize_u8(u8) serialize_u16(u16) serialize_u32(u32) serialize_u64(u64) serialize_f32(f32) serialize_f64(f64) serialize_char(char) serialize_str(&str) serialize_bytes(&[u8]) }
        fn serialize_none(self) -> Result<Rec, E> { Err(E) }
        fn serialize_some<T: ?Sized + Serialize>(self, _v: &T) -> Result<Rec, E> { Err(E) }
        fn serialize_unit(self) -> Result<Rec, E> { Err(E) }
        fn serialize_unit_struct(self, _n: &'static str) -> Result<Rec, E> { Err(E) }
        fn serialize_unit_variant(self, _n: &'static str, _i: u32, _v: &'static str) -> Result<Rec, E> { Err(E) }
        fn serialize_newtype_struct<T: ?Sized + Serialize>(self, _n: &'static str, _v: &T) -> Result<Rec, E> { Err(E) }
        fn serialize_newtype_variant<T: ?Sized + Serialize>(self, _n: &'static str, _i: u32, _v: &'static str, _x: &T) -> Result<Rec, E> { Err(E) }
        fn serialize_seq(self, _l: Option<usize>) -> Result<Self::SerializeSeq, E> { Err(E) }
        fn serialize_tuple(self, _l: usize) -> Result<Self::SerializeTuple, E> { Err(E) }
        fn serialize_tuple_struct(self, _n: &'static str, _l: usize) -> Result<Self::SerializeTupleStruct, E> { Err(E) }
        fn serialize_tuple_variant(self, _n: &'static str, _i: u32, _v: &'static str, _l: usize) -> Result<Self::SerializeTupleVariant, E> { Err(E) }
        fn serialize_map(self, _l: Option<usize>) -> Result<Self::SerializeMap, E> { Err(E) }
        fn serialize_struct(self, name: &'static str, len: usize) -> Result<Rec, E> {
            let ok = name.len() == 8 && name.as_bytes()[0] == b'T' && name.as_bytes()[7] == b't' && len == 2;
            Ok(Rec { name_ok: ok, n: 0, keys: [9, 9], vals: [0, 0], bad: false })
        }
        fn serialize_struct_variant(self, _n: &'static str, _i: u32, _v: &'static str, _l: usize) -> Result<Self::SerializeStructVariant, E> { Err(E) }
    }

    fn any3() -> [f64; 3] { [any_f64!(), any_f64!(), any_f64!()] }

    harnesses! {
        /// sequence form: Ok exactly on valid pairs, words preserved bit for bit; wrong length is an error
        #[kani::solver(kissat)] #[kani::unwind(6)] #[kani::stub(crate::base::no_overlap, s_no_overlap)]
        fn deserialize_seq() {
            let vals = any3(); let len = any_u8!() as usize;
            vassume!(len <= 3);
            let r = TwoFloat::deserialize(De(Src::S(Seq { vals, len, pos: 0 })));
            let ok = len >= 2 && valid_def(vals[0], vals[1]);
            match r {
                Ok(t) => { vassert!(ok, "sequence input is accepted only when it carries a valid (hi, lo) pair"); vassert!(t.hi.to_bits() == vals[0].to_bits() && t.lo.to_bits() == vals[1].to_bits(), "deserialised words are bit-identical"); vcover!(vals[1] != 0.0, "non-zero low word reachable"); }
                Err(_) => { vassert!(!ok, "a valid pair is not rejected"); }
            }
        }
        /// map form, every key sequence of length <= 3 over {hi, lo, other}: Ok only with exactly one hi and one lo
        /// forming a valid pair (either field order), words preserved; missing / duplicate / unknown field is an error
        #[kani::solver(kissat)] #[kani::unwind(6)] #[kani::stub(crate::base::no_overlap, s_no_overlap)]
        fn deserialize_map() {
            let keys = [any_u8!(), any_u8!(), any_u8!()]; let vals = any3(); let len = any_u8!() as usize;
            vassume!(len <= 3 && keys[0] <= 2 && keys[1] <= 2 && keys[2] <= 2);
            let r = TwoFloat::deserialize(De(Src::M(Map { keys, vals, len, pos: 0 })));
            let mut nhi = 0; let mut nlo = 0; let mut nother = 0; let mut hi = 0.0; let mut lo = 0.0;
            let mut i = 0;
            while i < len { if keys[i] == 0 { nhi += 1; hi = vals[i]; } else if keys[i] == 1 { nlo += 1; lo = vals[i]; } else { nother += 1; } i += 1; }
            let ok = nhi == 1 && nlo == 1 && nother == 0 && valid_def(hi, lo);
            match r {
                Ok(t) => { vassert!(ok, "map input is accepted only with exactly one hi and one lo forming a valid pair"); vassert!(t.hi.to_bits() == hi.to_bits() && t.lo.to_bits() == lo.to_bits(), "deserialised words are bit-identical"); vcover!(keys[0] == 1, "lo-first field order reachable"); }
                Err(_) => { vassert!(!ok, "a well-formed valid map is not rejected"); }
            }
        }
        /// serialising emits struct "TwoFloat" with fields ("hi", hi), ("lo", lo) in order, bit-identical
        #[kani::solver(kissat)] #[kani::unwind(10)]
        fn serialize_struct() {
            let x = any_tf();
            match x.serialize(RecSer) {
                Ok(rec) => {
                    vassert!(rec.name_ok && rec.n == 2 && !rec.bad, "a two-field struct named TwoFloat");
                    vassert!(rec.keys[0] == 0 && rec.keys[1] == 1, "fields hi, lo in this order");
                    vassert!(rec.vals[0] == x.hi.to_bits() && rec.vals[1] == x.lo.to_bits(), "field values are the words, bit for bit");
                }
                Err(_) => { vassert!(false, "serialisation does not fail"); }
            }
        }
    }
}

#[cfg(not(kani))]
mod text {
    extern crate std;
    use crate::TwoFloat;
    use core::convert::TryFrom;
    use std::format;
    use std::string::String;
    use std::vec::Vec;
    fn parts(s: &str) -> Option<(String, char, String)> {
        let v: Vec<&str> = s.split(' ').collect();
        if v.len() != 3 || v[1].len() != 1 { return None; }
        Some((String::from(v[0]), v[1].chars().next().unwrap(), String::from(v[2])))
    }
    pub fn check() -> Result<(), String> {
        let samples: [(f64, f64); 10] = [(1.0, 0.0), (1.0, -0.0), (1.0, 1e-17), (-3.5, -2.0e-17), (1e300, 1e283), (1e-300, -4.9e-324), (123456.789, 3.0e-12),
            (2.5e-7, 1.0e-24), (-0.0, 0.0), (9007199254740992.0, 1.0)];
        for &(h, l) in samples.iter() {
            let x = TwoFloat::try_from((h, l)).map_err(|_| String::from("sample not valid"))?;
            for (k, s) in [format!("{}", x), format!("{:e}", x), format!("{:E}", x)].iter().enumerate() {
                let (a, sg, b) = parts(s).ok_or(format!("shape of {:?}", s))?;
                if (sg == '-') != l.is_sign_negative() || (sg != '-' && sg != '+') { return Err(format!("sign character in {:?}", s)); }
                let pa: f64 = a.parse().map_err(|_| format!("first numeral of {:?}", s))?;
                let pb: f64 = b.parse().map_err(|_| format!("second numeral of {:?}", s))?;
                if pa.to_bits() != h.to_bits() && !(pa == h && k > 0) { return Err(format!("first numeral of {:?} parses to {:e}", s, pa)); }
                if pb != l.abs() { return Err(format!("second numeral of {:?} parses to {:e}", s, pb)); }
            }
            let p = format!("{:+}", x);
            if !(p.starts_with('+') || p.starts_with('-')) { return Err(format!("'+' flag: {:?}", p)); }
            let q = format!("{:.3}", x);
            let want = format!("{:.3} {} {:.3}", h, if l.is_sign_negative() { '-' } else { '+' }, l.abs());
            if q != want { return Err(format!("precision: {:?} vs {:?}", q, want)); }
            for (got, want) in [(format!("{:+.3}", x), format!("{:+.3} {} {:.3}", h, if l.is_sign_negative() { '-' } else { '+' }, l.abs())),
                                (format!("{:+.3e}", x), format!("{:+.3e} {} {:.3e}", h, if l.is_sign_negative() { '-' } else { '+' }, l.abs())),
                                (format!("{:+.3E}", x), format!("{:+.3E} {} {:.3E}", h, if l.is_sign_negative() { '-' } else { '+' }, l.abs())),
                                (format!("{:.4E}", x), format!("{:.4E} {} {:.4E}", h, if l.is_sign_negative() { '-' } else { '+' }, l.abs())),
                                (format!("{:+e}", x), format!("{:+e} {} {:e}", h, if l.is_sign_negative() { '-' } else { '+' }, l.abs())),
                                (format!("{:+E}", x), format!("{:+E} {} {:E}", h, if l.is_sign_negative() { '-' } else { '+' }, l.abs()))].iter() {
                if got != want { return Err(format!("flag/precision rendering: {:?} vs {:?}", got, want)); }
            }
            let qe = format!("{:.2e}", x);
            let wante = format!("{:.2e} {} {:.2e}", h, if l.is_sign_negative() { '-' } else { '+' }, l.abs());
            if qe != wante { return Err(format!("precision: {:?} vs {:?}", qe, wante)); }
        }
        Ok(())
    }
}

harnesses! {
    /// text output on a structured sample (ground, native): '<hi> <sign> <|lo|>', numerals parse back, '+' flag, precision
    fn text_format_sample() {
        #[cfg(not(kani))]
        {
            let r = text::check();
            if let Err(e) = &r { extern crate std; std::eprintln!("text_format_sample: {}", e); }
            vassert!(r.is_ok(), "Display / LowerExp / UpperExp render '<hi> <sign> <|lo|>' and the numerals parse back");
        }
    }
}
