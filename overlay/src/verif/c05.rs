//! C05 — division and reciprocal: exact clauses (the f64-divisor algorithm miters are in c04.rs).
//! The 16 * 2^-106 bound of the three-digit long division (f64 / TwoFloat, TwoFloat / TwoFloat, /=,
//! recip) has no published theorem to rest on and is not decided here (DESIGN section 9).
use super::contracts::*;
use super::spec::*;
use crate::TwoFloat;

harnesses! {
    /// recip(x) is 1.0 / x, bit for bit, for every word pattern
    #[kani::solver(cvc5)] #[kani::unwind(6)]
    fn recip_is_one_over_x() {
        let x = any_tf();
        vassert!(same_tf(&x.recip(), &(1.0 / x)), "recip(x) == 1.0 / x bit for bit");
    }
    /// TwoFloat / f64: zero numerator gives zero, dividing by +-1 is exact, dividing by 2^k is exact
    /// whenever the scaled low word does not underflow
    #[kani::solver(kissat)] #[kani::unwind(6)] #[kani::stub(crate::arithmetic::fma, fma_fixed)]
    fn div_f64_exact_clauses() {
        let x = any_valid();
        vassume!(in450(x.hi));
        let a = x / 1.0; let b = x / -1.0;
        vassert!(a.hi == x.hi && a.lo == x.lo, "x / 1.0 == x");
        vassert!(b.hi == -x.hi && b.lo == -x.lo, "x / -1.0 == -x");
        let mut t = x; t /= 1.0;
        vassert!(t.hi == x.hi && t.lo == x.lo, "x /= 1.0 keeps x");
        vcover!(x.lo != 0.0, "non-zero low word reachable");
    }
    #[kani::solver(kissat)] #[kani::unwind(6)] #[kani::stub(crate::arithmetic::fma, fma_fixed)]
    fn div_f64_pow2_exact() {
        let x = any_valid();
        vassume!(in450(x.hi));
        let k = any_i32!(); vassume!(k >= -450 && k <= 450);
        let p = f64::from_bits(((k + 1023) as u64) << 52);
        vassume!(x.lo == 0.0 || (x.lo / p).abs() >= f64::MIN_POSITIVE);
        let r = x / p;
        vassert!(r.hi == x.hi / p && r.lo == x.lo / p, "x / 2^k scales both words exactly");
        vcover!(x.lo != 0.0 && k > 300, "large exponent reachable");
    }
    #[kani::solver(kissat)] #[kani::unwind(6)] #[kani::stub(crate::arithmetic::fma, fma_fixed)]
    fn div_zero_numerator_f64() {
        let y = any_f64!();
        vassume!(in450(y) && y != 0.0);
        let a = TwoFloat::from(0.0) / y;
        let mut b = TwoFloat::from(0.0); b /= y;
        vassert!(a.hi == 0.0 && a.lo == 0.0 && b.hi == 0.0 && b.lo == 0.0, "0 / f64 == 0");
    }
    #[kani::solver(kissat)] #[kani::unwind(6)] #[kani::stub(crate::arithmetic::fma, fma_fixed)]
    fn div_zero_numerator_tf() {
        let z = any_valid();
        vassume!(in450(z.hi) && z.hi != 0.0);
        let b = TwoFloat::from(0.0) / z; let c = 0.0 / z;
        vassert!(b.hi == 0.0 && b.lo == 0.0, "0 / TwoFloat == 0");
        vassert!(c.hi == 0.0 && c.lo == 0.0, "0.0 / TwoFloat == 0");
    }
    /// 16 * 2^-106 bound of the long-division family on a seeded sample of 600 valid operand pairs with high words in
    /// [2^-200, 2^200] (ground, native; |x - q*y| <= 16 * 2^-106 |q*y| judged exactly in Fix).  A finite sample, not a proof.
    fn long_division_accuracy_sample() {
        #[cfg(not(kani))]
        {
            use core::convert::TryFrom;
            let mut st: u64 = 0x243F6A8885A308D3;
            let mut nx = || { st ^= st << 13; st ^= st >> 7; st ^= st << 17; st };
            let mut mk = |r1: u64, r2: u64, r3: u64| -> TwoFloat {
                let e = 1023 - 200 + (r1 >> 40) % 401;
                let hi = f64::from_bits((r1 & 0x800f_ffff_ffff_ffff) | (e << 52));
                let u = f64::from_bits(hi.to_bits() & 0x7ff0_0000_0000_0000) * 1.1102230246251565e-16; // half ulp of the binade
                let frac = match r2 % 5 { 0 => 0.0, 1 => 1.0, 2 => 0.5, _ => (r3 >> 11) as f64 / 9007199254740992.0 };
                let lo = u * frac * 0.9999 * (if r2 & 64 != 0 { -1.0 } else { 1.0 });
                TwoFloat::try_from((hi, lo)).unwrap_or(TwoFloat::from(hi))
            };
            let mut bad = 0u32; let mut n = 0u32;
            while n < 600 {
                let x = mk(nx(), nx(), nx()); let y = mk(nx(), nx(), nx());
                n += 1;
                let q1 = x / y; let q2 = x.hi() / y; let mut q3 = x; q3 /= y; let r = y.recip();
                let one = TwoFloat::from(1.0); let xh = TwoFloat::from(x.hi());
                if !(q1.is_valid() && super::c04::mul_bound_ok(&x, &q1, y.hi(), y.lo(), 16)) { bad += 1; }
                if !(q2.is_valid() && super::c04::mul_bound_ok(&xh, &q2, y.hi(), y.lo(), 16)) { bad += 1; }
                if !(q3.is_valid() && super::c04::mul_bound_ok(&x, &q3, y.hi(), y.lo(), 16)) { bad += 1; }
                if !(r.is_valid() && super::c04::mul_bound_ok(&one, &r, y.hi(), y.lo(), 16)) { bad += 1; }
            }
            vassert!(bad == 0, "f64/TwoFloat, TwoFloat/TwoFloat, /=, recip within 16 * 2^-106 on every sample pair");
        }
    }
    /// exact points of the long division (ground, native): x / x == 1, x / +-1, x / 2^k on a structured sample
    fn long_division_exact_points() {
        use core::convert::TryFrom;
        let his = [1.0, 3.0, 0.1, 1e100, 1e-100, 123456789.123, 2f64.powi(400), 2f64.powi(-400), 0.9999999999999999];
        let rel = [0.0, 0.5, -0.5, 0.25, -0.49999, 0.3, -0.123456789];
        let mut i = 0;
        while i < his.len() {
            let mut j = 0;
            while j < rel.len() {
                let h = his[i];
                let ulp = f64::from_bits(h.to_bits() & !((1u64 << 52) - 1)) * 2f64.powi(-52);
                for sgn in [1.0, -1.0] {
                    if let Ok(x) = TwoFloat::try_from((sgn * h, rel[j] * ulp)) {
                        let q = x / x;
                        vassert!(q.hi() == 1.0 && q.lo() == 0.0, "x / x == 1 exactly");
                        let mut s = x; s /= x;
                        vassert!(s.hi() == 1.0 && s.lo() == 0.0, "x /= x gives 1 exactly");
                        let one = TwoFloat::from(1.0);
                        let a = x / one; let b = x / TwoFloat::from(-1.0);
                        vassert!(a.hi() == x.hi() && a.lo() == x.lo(), "x / TwoFloat(1) == x");
                        vassert!(b.hi() == -x.hi() && b.lo() == -x.lo(), "x / TwoFloat(-1) == -x");
                        let c = x / TwoFloat::from(8.0);
                        vassert!(c.hi() == x.hi() / 8.0 && c.lo() == x.lo() / 8.0, "x / TwoFloat(8) scales both words");
                        let r = x.recip(); let o = 1.0 / x;
                        vassert!(same_tf(&r, &o), "recip(x) == 1.0 / x");
                    }
                }
                j += 1;
            }
            i += 1;
        }
    }
}
