//! C08 — floor, ceil, trunc, round and fract are exact.
//! Each function is proved (fast_two_sum replaced by its exactness contract,
//! libm's modf/floor/ceil/round/trunc compiled from source) against the
//! "rounding of a normalised pair" formula: two f64 (p, q) whose exact sum is
//! the required value.  The formulas are written from the mathematics of
//! normalised pairs and tied to the definitional `Fix` roundings of
//! hi + lo by the one-pair lemmas `lemma_*_pair`; natively the result is
//! judged directly by `Fix`.
use super::contracts::*;
use super::spec::fix::{fx, Fix};
use super::spec::*;
use crate::TwoFloat;

pub fn floor_pair(h: f64, l: f64) -> (f64, f64) {
    if l == 0.0 || !is_int(h) { (spec_floor(h), 0.0) } else { (h, spec_floor(l)) }
}
pub fn ceil_pair(h: f64, l: f64) -> (f64, f64) {
    if l == 0.0 || !is_int(h) { (spec_ceil(h), 0.0) } else { (h, spec_ceil(l)) }
}
pub fn trunc_pair(h: f64, l: f64) -> (f64, f64) {
    if h > 0.0 { floor_pair(h, l) } else { ceil_pair(h, l) }
}
pub fn round_pair(h: f64, l: f64) -> (f64, f64) {
    if l == 0.0 { return (spec_round(h), 0.0); }
    if is_int(h) {
        let fl = spec_fract(l);
        if fl.abs() == 0.5 { (h, if h > 0.0 { spec_ceil(l) } else { spec_floor(l) }) } else { (h, spec_round(l)) }
    } else if spec_fract(h).abs() == 0.5 {
        if (h > 0.0) == (l > 0.0) { (spec_round(h), 0.0) } else { (spec_trunc(h), 0.0) }
    } else { (spec_round(h), 0.0) }
}
pub fn fract_pair(h: f64, l: f64) -> (f64, f64) {
    if l == 0.0 { return (spec_fract(h), 0.0); }
    if !is_int(h) { return (spec_fract(h), l); }
    let fl = spec_fract(l);
    if fl == 0.0 { (0.0, 0.0) }
    else if h > 0.0 && l < 0.0 { (1.0, fl) }
    else if h < 0.0 && l > 0.0 { (-1.0, fl) }
    else { (fl, 0.0) }
}

#[derive(Clone, Copy)]
pub enum R { Floor, Ceil, Trunc, Round, Fract }

fn pair_of(k: R, h: f64, l: f64) -> (f64, f64) {
    match k { R::Floor => floor_pair(h, l), R::Ceil => ceil_pair(h, l), R::Trunc => trunc_pair(h, l), R::Round => round_pair(h, l), R::Fract => fract_pair(h, l) }
}
fn fix_of(k: R, v: Fix) -> Fix {
    match k { R::Floor => v.floor(), R::Ceil => v.ceil(), R::Trunc => v.trunc(), R::Round => v.round(), R::Fract => v.sub(v.trunc()) }
}

fn round_case(k: R) { round_case_part(k, 0) }
/// part 0: all valid x; 1: integral high word; 2: fractional high word (case split for speed)
fn round_case_part(k: R, part: u8) {
    let x = any_valid();
    if part == 1 { vassume!(is_int(x.hi)); }
    if part == 2 { vassume!(!is_int(x.hi)); }
    let r = match k { R::Floor => x.floor(), R::Ceil => x.ceil(), R::Trunc => x.trunc(), R::Round => x.round(), R::Fract => x.fract() };
    vassert!(valid(r.hi, r.lo), "result is a valid TwoFloat");
    #[cfg(kani)]
    {
        let (p, q) = pair_of(k, x.hi, x.lo);
        vassert!(exact2(r.hi, r.lo, p, q), "exact value of the result is the rounding of hi + lo (pair formula)");
    }
    #[cfg(not(kani))]
    {
        vassert!(val(&r).eq(fix_of(k, val(&x))), "exact value of the result is the rounding of the exact value hi + lo");
        let t = x.trunc(); let f = x.fract();
        vassert!(val(&t).add(val(&f)).eq(val(&x)), "trunc(x) + fract(x) == x exactly");
    }
    vcover!(part == 2 || (is_int(x.hi) && x.lo != 0.0 && !is_int(x.lo)), "integer high word with fractional low word reachable");
    vcover!(part == 1 || (!is_int(x.hi) && x.lo != 0.0), "fractional high word with non-zero low word reachable");
}

fn lemma_case(k: R) {
    let a = any_valid();
    let (p, q) = pair_of(k, a.hi, a.lo);
    vassert!(p.is_finite() && q.is_finite(), "pair formula yields finite words");
    vassert!(fx(p).add(fx(q)).eq(fix_of(k, val(&a))), "pair formula == definitional rounding of the exact value");
    vcover!(is_int(a.hi) && a.lo != 0.0 && !is_int(a.lo), "integer high word with fractional low word reachable");
}

harnesses! {
    #[kani::solver(kissat)] #[kani::unwind(6)] #[kani::stub(crate::arithmetic::fast_two_sum, s_fts)]
    fn floor_exact() { round_case(R::Floor) }
    #[kani::solver(kissat)] #[kani::unwind(6)] #[kani::stub(crate::arithmetic::fast_two_sum, s_fts)]
    fn ceil_exact() { round_case(R::Ceil) }
    #[kani::solver(kissat)] #[kani::unwind(6)] #[kani::stub(crate::arithmetic::fast_two_sum, s_fts)]
    fn trunc_exact() { round_case(R::Trunc) }
    #[kani::solver(kissat)] #[kani::unwind(6)] #[kani::stub(crate::arithmetic::fast_two_sum, s_fts)]
    fn round_exact_int_hi() { round_case_part(R::Round, 1) }
    #[kani::solver(kissat)] #[kani::unwind(6)] #[kani::stub(crate::arithmetic::fast_two_sum, s_fts)]
    fn round_exact_frac_hi() { round_case_part(R::Round, 2) }
    #[kani::solver(kissat)] #[kani::unwind(6)] #[kani::stub(crate::arithmetic::fast_two_sum, s_fts)]
    fn fract_exact_int_hi() { round_case_part(R::Fract, 1) }
    #[kani::solver(kissat)] #[kani::unwind(6)] #[kani::stub(crate::arithmetic::fast_two_sum, s_fts)]
    fn fract_exact_frac_hi() { round_case_part(R::Fract, 2) }

    /// L-libm: libm's rounding primitives equal the mask-arithmetic specifications, all f64
    #[kani::solver(kissat)] #[kani::unwind(6)]
    fn lemma_libm() {
        let x = any_f64!();
        vassert!(same(libm::floor(x), spec_floor(x)), "libm::floor == spec_floor");
        vassert!(same(libm::ceil(x), spec_ceil(x)), "libm::ceil == spec_ceil");
        vassert!(same(libm::trunc(x), spec_trunc(x)), "libm::trunc == spec_trunc");
        vassert!(same(libm::round(x), spec_round(x)), "libm::round == spec_round (half away from zero)");
        let (f, i) = libm::modf(x);
        if x.is_finite() {
            vassert!(same(i, spec_trunc(x)), "libm::modf integral part == spec_trunc");
            vassert!(f == spec_fract(x), "libm::modf fractional part == x - trunc(x)");
        }
    }

    // one-pair Fix lemmas: the pair formulas are the definitional roundings (thorough tier)
    #[kani::solver(kissat)] #[kani::unwind(40)] fn lemma_floor_pair() { lemma_case(R::Floor) }
    #[kani::solver(kissat)] #[kani::unwind(40)] fn lemma_ceil_pair() { lemma_case(R::Ceil) }
    #[kani::solver(kissat)] #[kani::unwind(40)] fn lemma_trunc_pair() { lemma_case(R::Trunc) }
    #[kani::solver(kissat)] #[kani::unwind(40)] fn lemma_round_pair() { lemma_case(R::Round) }
    #[kani::solver(kissat)] #[kani::unwind(40)] fn lemma_fract_pair() { lemma_case(R::Fract) }
}
