//! Attribute bundle: replaces every arithmetic operator impl of the crate by a value-independent
//! stub (see contracts.rs).  Expanded by `hv_harness!`.
macro_rules! hv_harnesses {
    ($( $(#[$m:meta])* fn $name:ident() $body:block )*) => {
        $(
        #[cfg_attr(kani, kani::proof)]
        $(#[cfg_attr(kani, $m)])*
        #[cfg_attr(kani, kani::stub(<&crate::TwoFloat as core::ops::Add<&crate::TwoFloat>>::add, crate::verif::contracts::h_tt))]
        #[cfg_attr(kani, kani::stub(<&crate::TwoFloat as core::ops::Add<&f64>>::add, crate::verif::contracts::h_tf))]
        #[cfg_attr(kani, kani::stub(<&f64 as core::ops::Add<&crate::TwoFloat>>::add, crate::verif::contracts::h_ft))]
        #[cfg_attr(kani, kani::stub(<&crate::TwoFloat as core::ops::Sub<&crate::TwoFloat>>::sub, crate::verif::contracts::h_tt))]
        #[cfg_attr(kani, kani::stub(<&f64 as core::ops::Sub<&crate::TwoFloat>>::sub, crate::verif::contracts::h_ft))]
        #[cfg_attr(kani, kani::stub(<&crate::TwoFloat as core::ops::Mul<&crate::TwoFloat>>::mul, crate::verif::contracts::h_tt))]
        #[cfg_attr(kani, kani::stub(<&crate::TwoFloat as core::ops::Mul<&f64>>::mul, crate::verif::contracts::h_tf))]
        #[cfg_attr(kani, kani::stub(<&f64 as core::ops::Mul<&crate::TwoFloat>>::mul, crate::verif::contracts::h_ft))]
        #[cfg_attr(kani, kani::stub(<&crate::TwoFloat as core::ops::Div<&crate::TwoFloat>>::div, crate::verif::contracts::h_tt))]
        #[cfg_attr(kani, kani::stub(<&crate::TwoFloat as core::ops::Div<&f64>>::div, crate::verif::contracts::h_tf))]
        #[cfg_attr(kani, kani::stub(<&f64 as core::ops::Div<&crate::TwoFloat>>::div, crate::verif::contracts::h_ft))]
        #[cfg_attr(kani, kani::stub(<crate::TwoFloat as core::ops::AddAssign<&crate::TwoFloat>>::add_assign, crate::verif::contracts::h_at))]
        #[cfg_attr(kani, kani::stub(<crate::TwoFloat as core::ops::SubAssign<&crate::TwoFloat>>::sub_assign, crate::verif::contracts::h_at))]
        #[cfg_attr(kani, kani::stub(<crate::TwoFloat as core::ops::MulAssign<&crate::TwoFloat>>::mul_assign, crate::verif::contracts::h_at))]
        #[cfg_attr(kani, kani::stub(libm::log, crate::verif::contracts::h_f64))]
        #[cfg_attr(kani, kani::stub(libm::log1p, crate::verif::contracts::h_f64))]
        #[cfg_attr(kani, kani::stub(libm::log2, crate::verif::contracts::h_f64))]
        #[cfg_attr(kani, kani::stub(libm::sqrt, crate::verif::contracts::h_f64))]
        #[cfg_attr(kani, kani::stub(libm::cbrt, crate::verif::contracts::h_f64))]
        #[cfg_attr(kani, kani::stub(crate::base::no_overlap, crate::verif::contracts::s_no_overlap))]
        pub fn $name() $body
        )*
        pub const TABLE: &[(&str, fn())] = &[ $( (concat!(module_path!(), "::", stringify!($name)), $name as fn()) ),* ];
    };
}
