//! C11 — results do not depend on the std / no_std build configuration.
//! The only cfg-selected numeric item is the private `fma` (two one-line definitions).  The
//! obligations below are run in the `--no-default-features --features math_funcs` build with
//! `libm::fma` replaced by its assumed contract (the IEEE fused multiply-add primitive): every
//! body that uses `fma` must be bit-identical, for all operand patterns, to the published
//! algorithm over that primitive - exactly the obligations C04/C05 discharge in the default
//! build.  Both builds therefore compute the same function of the same primitive.
use super::c04::*;
use super::contracts::*;
use super::spec::*;
use crate::TwoFloat;

#[cfg(kani)]
pub fn prim_fma(x: f64, y: f64, z: f64) -> f64 { f64::mul_add(x, y, z) }

harnesses! {
    #[kani::solver(cvc5)] #[kani::stub(libm::fma, prim_fma)] fn nostd_alg9_mul_tf_f64() { mul_f64_case(false, F::Op) }
    #[kani::solver(cvc5)] #[kani::stub(libm::fma, prim_fma)] fn nostd_alg9_mul_f64_tf() { mul_f64_case(true, F::Op) }
    #[kani::solver(cvc5)] #[kani::stub(libm::fma, prim_fma)] fn nostd_alg9_mul_assign_f64() { mul_f64_case(false, F::Assign) }
    #[kani::solver(cvc5)] #[kani::stub(libm::fma, prim_fma)] fn nostd_alg12_mul_tf_tf() { mul_tf_case(F::Op) }
    #[kani::solver(cvc5)] #[kani::stub(libm::fma, prim_fma)] fn nostd_alg12_mul_assign_tf() { mul_tf_case(F::Assign) }
    #[kani::solver(cvc5)] #[kani::stub(libm::fma, prim_fma)] fn nostd_alg15_div_tf_f64() { div_f64_case(F::Op) }
    #[kani::solver(cvc5)] #[kani::stub(libm::fma, prim_fma)] fn nostd_alg15_div_assign_f64() { div_f64_case(F::Assign) }
    /// new_mul(a, b) == (a * b, fma(a, b, -(a * b))) for all 2^128 pairs
    #[kani::solver(cvc5)] #[kani::stub(libm::fma, prim_fma)]
    fn nostd_new_mul_is_fma_form() {
        let a = any_f64!(); let b = any_f64!();
        let r = TwoFloat::new_mul(a, b);
        let p = a * b;
        vassert!(same(r.hi, p) && same(r.lo, f64::mul_add(a, b, -p)), "new_mul(a,b) == (RN(ab), fma(a, b, -RN(ab)))");
    }
}
