//! C12 — published constants are correctly rounded double-doubles.
use super::c12_data::EXPECTED;
use super::contracts::*;
use super::spec::*;
use crate::{consts, TwoFloat};

fn expected(name: &str) -> TwoFloat {
    let mut i = 0;
    while i < EXPECTED.len() {
        if EXPECTED[i].0.len() == name.len() && EXPECTED[i].0.as_bytes() == name.as_bytes() {
            return TwoFloat { hi: f64::from_bits(EXPECTED[i].1), lo: f64::from_bits(EXPECTED[i].2) };
        }
        i += 1;
    }
    TwoFloat::NAN
}
fn is(c: &TwoFloat, hi: u64, lo: u64) -> bool { c.hi.to_bits() == hi && c.lo.to_bits() == lo }

harnesses! {
    /// each of the 19 constants: hi == RN(c), lo == RN(c - hi) (reference words from refdata/constants.json)
    #[kani::solver(kissat)] #[kani::unwind(30)]
    fn consts_correctly_rounded() {
        vassert!(same_tf(&consts::E, &expected("E")), "E");
        vassert!(same_tf(&consts::FRAC_1_PI, &expected("FRAC_1_PI")), "FRAC_1_PI");
        vassert!(same_tf(&consts::FRAC_1_SQRT_2, &expected("FRAC_1_SQRT_2")), "FRAC_1_SQRT_2");
        vassert!(same_tf(&consts::FRAC_2_PI, &expected("FRAC_2_PI")), "FRAC_2_PI");
        vassert!(same_tf(&consts::FRAC_2_SQRT_PI, &expected("FRAC_2_SQRT_PI")), "FRAC_2_SQRT_PI");
        vassert!(same_tf(&consts::FRAC_PI_2, &expected("FRAC_PI_2")), "FRAC_PI_2");
        vassert!(same_tf(&consts::FRAC_PI_3, &expected("FRAC_PI_3")), "FRAC_PI_3");
        vassert!(same_tf(&consts::FRAC_PI_4, &expected("FRAC_PI_4")), "FRAC_PI_4");
        vassert!(same_tf(&consts::FRAC_PI_6, &expected("FRAC_PI_6")), "FRAC_PI_6");
        vassert!(same_tf(&consts::FRAC_PI_8, &expected("FRAC_PI_8")), "FRAC_PI_8");
        vassert!(same_tf(&consts::LN_10, &expected("LN_10")), "LN_10");
        vassert!(same_tf(&consts::LN_2, &expected("LN_2")), "LN_2");
        vassert!(same_tf(&consts::LOG10_2, &expected("LOG10_2")), "LOG10_2");
        vassert!(same_tf(&consts::LOG10_E, &expected("LOG10_E")), "LOG10_E");
        vassert!(same_tf(&consts::LOG2_10, &expected("LOG2_10")), "LOG2_10");
        vassert!(same_tf(&consts::LOG2_E, &expected("LOG2_E")), "LOG2_E");
        vassert!(same_tf(&consts::PI, &expected("PI")), "PI");
        vassert!(same_tf(&consts::SQRT_2, &expected("SQRT_2")), "SQRT_2");
        vassert!(same_tf(&consts::TAU, &expected("TAU")), "TAU");
        vassert!(valid_def(consts::PI.hi, consts::PI.lo) && valid_def(consts::E.hi, consts::E.lo), "constants valid");
    }
    /// the reference words themselves are valid pairs (guards the reference table)
    #[kani::solver(kissat)] #[kani::unwind(30)]
    fn reference_words_valid() {
        let mut i = 0;
        while i < EXPECTED.len() {
            vassert!(valid_def(f64::from_bits(EXPECTED[i].1), f64::from_bits(EXPECTED[i].2)), "reference pair is valid");
            i += 1;
        }
        vassert!(EXPECTED.len() == 26, "reference table complete");
    }
    /// associated constants
    #[kani::solver(kissat)]
    fn associated_constants() {
        vassert!(valid_def(TwoFloat::MAX.hi, TwoFloat::MAX.lo) && valid_def(TwoFloat::MIN.hi, TwoFloat::MIN.lo), "MAX and MIN are valid");
        vassert!(TwoFloat::MAX.hi == f64::MAX && TwoFloat::MIN.hi == f64::MIN && TwoFloat::MIN.lo == -TwoFloat::MAX.lo, "MAX/MIN high words");
        vassert!(is(&TwoFloat::MIN_POSITIVE, 0x0010000000000000, 0), "MIN_POSITIVE == (2^-1022, +0)");
        vassert!(!(TwoFloat::NAN == TwoFloat::NAN) && TwoFloat::NAN != TwoFloat::NAN, "NAN != NAN");
        vassert!(!TwoFloat::INFINITY.is_valid() && !TwoFloat::NEG_INFINITY.is_valid() && !TwoFloat::NAN.is_valid(), "infinities and NaN are not valid");
        vassert!(TwoFloat::INFINITY.hi == f64::INFINITY && TwoFloat::NEG_INFINITY.hi == f64::NEG_INFINITY, "infinities have infinite high words");
    }
    /// MAX / MIN are the largest / smallest values for which is_valid() can hold
    #[kani::solver(kissat)]
    fn max_min_extremal() {
        let x = any_valid();
        let m = TwoFloat::MAX; let n = TwoFloat::MIN;
        vassert!(x.hi < m.hi || (x.hi == m.hi && x.lo <= m.lo), "every valid x <= MAX (lexicographic == exact order, L-lex)");
        vassert!(x.hi > n.hi || (x.hi == n.hi && x.lo >= n.lo), "every valid x >= MIN");
        vcover!(x.hi == m.hi && x.lo == m.lo, "MAX itself is valid");
    }
    /// the private angle factors are the correctly rounded 180/pi and pi/180 (read through x * 1 == x, C04)
    #[kani::solver(kissat)] #[kani::unwind(30)] #[kani::stub(crate::arithmetic::fma, fma_fixed)]
    fn angle_factors_correctly_rounded() {
        let one = TwoFloat::from(1.0);
        let d = one.to_degrees(); let r = one.to_radians();
        vassert!(same_tf(&d, &expected("DEG_PER_RAD")) || (d.hi == expected("DEG_PER_RAD").hi && d.lo == expected("DEG_PER_RAD").lo), "to_degrees(1) == RN2(180/pi)");
        vassert!(same_tf(&r, &expected("RAD_PER_DEG")) || (r.hi == expected("RAD_PER_DEG").hi && r.lo == expected("RAD_PER_DEG").lo), "to_radians(1) == RN2(pi/180)");
    }
    /// to_degrees / to_radians multiply by those factors (bit-identical to x * factor, all patterns)
    #[kani::solver(cvc5)]
    fn angle_conversions_are_products() {
        let x = any_tf();
        let d = TwoFloat { hi: f64::from_bits(EXPECTED[19].1), lo: f64::from_bits(EXPECTED[19].2) };
        let r = TwoFloat { hi: f64::from_bits(EXPECTED[20].1), lo: f64::from_bits(EXPECTED[20].2) };
        vassert!(same_tf(&x.to_degrees(), &(x * d)), "to_degrees(x) == x * RN2(180/pi)");
        vassert!(same_tf(&x.to_radians(), &(x * r)), "to_radians(x) == x * RN2(pi/180)");
    }
}
