//! Native self-test of the *specification* (never of the crate): Layer 2
//! against Layer 1 on seeded random and boundary operands.  Run at setup.
extern crate std;
use super::spec::fix::{fx, Fix};
use super::spec::*;
use std::vec::Vec;

struct Rng(u64);
impl Rng {
    fn next(&mut self) -> u64 { self.0 ^= self.0 << 13; self.0 ^= self.0 >> 7; self.0 ^= self.0 << 17; self.0 }
    /// f64 with a boundary-dense distribution
    fn f(&mut self) -> f64 {
        let r = self.next();
        let mode = r % 8;
        let bits = self.next();
        match mode {
            0 => f64::from_bits(bits),
            1 => f64::from_bits(bits & !((1u64 << 52) - 1)),                       // power of two
            2 => f64::from_bits(bits | ((1u64 << 52) - 1)),                        // all-ones significand
            3 => f64::from_bits(bits & 0x800f_ffff_ffff_ffff),                     // subnormal
            4 => f64::from_bits((bits & !((1u64 << 52) - 1)) | (1 << (bits % 52))), // one extra bit
            5 => { let e = 1023 - 60 + (bits % 200); f64::from_bits((bits & 0x800f_ffff_ffff_ffff) | (e << 52)) }
            6 => { let k = bits % 40; f64::from_bits(bits & !((1u64 << k) - 1)) }    // trailing zeros
            _ => 0.0,
        }
    }
}

fn related(rng: &mut Rng, a: f64) -> f64 {
    // a second operand at a controlled distance from a
    let e = ((a.to_bits() >> 52) & 0x7ff) as i64;
    let d = (rng.next() % 140) as i64 - 70;
    let ne = (e - d).clamp(0, 2046) as u64;
    let b = rng.next();
    f64::from_bits((b & 0x800f_ffff_ffff_ffff) | (ne << 52))
}

pub fn run(n: u64, seed: u64) -> i32 {
    let mut rng = Rng(0x9E3779B97F4A7C15 ^ seed.wrapping_mul(0xD1B54A32D192ED03) | 1);
    let mut bad = 0u64;
    let mut checked = 0u64;
    let mut report = |what: &str, xs: &[f64]| {
        std::eprintln!("SPEC-SELFTEST-FAIL {} {:?} {:?}", what, xs, xs.iter().map(|x| x.to_bits()).collect::<Vec<_>>());
    };
    for _ in 0..n {
        let a = rng.f();
        let b = if rng.next() % 2 == 0 { rng.f() } else { related(&mut rng, a) };
        // L0
        if valid_bits(a, b) != valid_def(a, b) { bad += 1; report("valid_bits", &[a, b]); }
        // 2Sum of (a, b) computed natively gives an exact pair: Layer 2 must accept it; perturbed pairs must be rejected
        if a.is_finite() && b.is_finite() && a.abs() < P1023 && b.abs() < P1023 {
            let s = a + b;
            let bb = s - a;
            let e = (a - (s - bb)) + (b - bb);
            if s.is_finite() && exact2_def(s, e, a, b) {
                checked += 1;
                if !exact_sum2_sgap(s, e, a, b) { bad += 1; report("exact_sum2_sgap rejects exact normalised pair", &[s, e, a, b]); }
                let e2 = f64::from_bits(e.to_bits() ^ 1);
                if exact_sum2_sgap(s, e2, a, b) && !exact2_def(s, e2, a, b) { bad += 1; report("exact_sum2_sgap accepts inexact pair", &[s, e2, a, b]); }
            }
            // arbitrary quadruples: sufficiency
            let h = rng.f(); let l = related(&mut rng, h);
            if exact_sum2_sgap(h, l, a, b) && !exact2_def(h, l, a, b) { bad += 1; report("exact_sum2_sgap unsound", &[h, l, a, b]); }
        }
        // rounding of one f64 against Fix
        if a.is_finite() {
            let v = fx(a);
            if !fx(spec_floor(a)).eq(v.floor()) { bad += 1; report("spec_floor", &[a]); }
            if !fx(spec_ceil(a)).eq(v.ceil()) { bad += 1; report("spec_ceil", &[a]); }
            if !fx(spec_trunc(a)).eq(v.trunc()) { bad += 1; report("spec_trunc", &[a]); }
            if !fx(spec_round(a)).eq(v.round()) { bad += 1; report("spec_round", &[a]); }
            if is_int(a) != v.is_int() { bad += 1; report("is_int", &[a]); }
        }
        // lex vs exact order on valid pairs
        let l1 = related(&mut rng, a); let l2 = related(&mut rng, b);
        let (x, y) = (crate::TwoFloat { hi: a, lo: l1 }, crate::TwoFloat { hi: if rng.next() % 4 == 0 { a } else { b }, lo: l2 });
        if valid_def(x.hi, x.lo) && valid_def(y.hi, y.lo) {
            checked += 1;
            if lex(&x, &y) != val(&x).cmp(val(&y)) { bad += 1; report("lex", &[x.hi, x.lo, y.hi, y.lo]); }
        }
    }
    // rounding of normalised pairs: pair formulas (Layer 2) against Fix (Layer 1)
    {
        use super::c08::*;
        let mut pairs = 0u64;
        for i in 0..n {
            let e = (rng.next() % 130) as i32 - 10;
            let mbits = rng.next() % 53;
            let m = (rng.next() | (1u64 << 63)) >> (63 - mbits.min(52));
            let mut h = (m as f64) * 2f64.powi(e - mbits as i32);
            if rng.next() % 2 == 0 { h = -h; }
            if i % 5 == 0 { h = (h * 2.0).round() / 2.0; }
            let u = f64::from_bits((h.abs().to_bits() & !((1u64 << 52) - 1))) * 2f64.powi(-53); // half ulp of the binade
            let l = match rng.next() % 8 {
                0 => 0.0,
                1 => u, 2 => -u,
                3 => { let t = (rng.next() % 4096) as f64 / 8.0; if t <= u { t } else { u / 4.0 } }
                4 => { let t = (rng.next() % 4096) as f64 / 8.0; if t <= u { -t } else { -u / 4.0 } }
                5 => u * ((rng.next() % 1024) as f64 / 1024.0),
                6 => -u * ((rng.next() % 1024) as f64 / 1024.0),
                _ => related(&mut rng, u / 2.0),
            };
            if !valid_def(h, l) { continue; }
            pairs += 1;
            let v = fx(h).add(fx(l));
            let chk = |name: &str, pq: (f64, f64), want: Fix| -> bool {
                let ok = pq.0.is_finite() && pq.1.is_finite() && fx(pq.0).add(fx(pq.1)).eq(want);
                if !ok { std::eprintln!("SPEC-SELFTEST-FAIL {} h={:e} l={:e} pq={:?}", name, h, l, pq); }
                ok
            };
            if !chk("floor_pair", floor_pair(h, l), v.floor()) { bad += 1; }
            if !chk("ceil_pair", ceil_pair(h, l), v.ceil()) { bad += 1; }
            if !chk("trunc_pair", trunc_pair(h, l), v.trunc()) { bad += 1; }
            if !chk("round_pair", round_pair(h, l), v.round()) { bad += 1; }
            if !chk("fract_pair", fract_pair(h, l), v.sub(v.trunc())) { bad += 1; }
        }
        checked += pairs;
    }
    // Fix against integer arithmetic on small cases
    for i in -2000i64..2000 {
        for sh in [0i32, 1, 3, 7] {
            let x = i as f64 / (1u64 << sh) as f64;
            let v = fx(x);
            let fl = (i >> sh) as f64;
            if !v.floor().eq(fx(fl)) { bad += 1; report("Fix::floor", &[x]); }
            let r = { let t = x.abs() + 0.5; let f = t.floor(); if x < 0.0 { -f } else { f } };
            if !v.round().eq(fx(r)) { bad += 1; report("Fix::round", &[x]); }
            if !v.add(fx(1.5)).eq(fx(x + 1.5)) { bad += 1; report("Fix::add", &[x]); }
            if v.cmp(fx(0.25)) != x.partial_cmp(&0.25).unwrap() { bad += 1; report("Fix::cmp", &[x]); }
        }
    }
    std::println!("{{\"selftest\":\"spec\",\"cases\":{},\"nontrivial_checked\":{},\"failures\":{}}}", n, checked, bad);
    if bad == 0 { 0 } else { 1 }
}
