//! Contracts of the crate functions the properties rest on.  For a function
//! `f`: `pre_f`, `post_f` (plain Rust, shared by everything below), a wrapper
//! `c_f` carrying them as Kani `requires/ensures` (proved against the real
//! body by `proof_for_contract` harnesses in the property modules) and a
//! contract stub `s_f` (assert pre, havoc, assume post) installed in callers
//! with `kani::stub(<real path>, s_f)`: a caller is checked against the
//! callee's contract, never its body.
use super::spec::*;
use crate::TwoFloat;

#[cfg(kani)]
impl kani::Arbitrary for TwoFloat {
    fn any() -> Self { TwoFloat { hi: kani::any(), lo: kani::any() } }
}

/// arbitrary pair of words (no invariant)
pub fn any_tf() -> TwoFloat { let hi = any_f64!(); let lo = any_f64!(); TwoFloat { hi, lo } }
/// arbitrary valid TwoFloat
pub fn any_valid() -> TwoFloat { let x = any_tf(); vassume!(valid(x.hi, x.lo)); x }

// ---------------------------------------------------------------- no_overlap
/// C07: for every pair of bit patterns
pub fn post_no_overlap(a: f64, b: f64, r: bool) -> bool { r == (a.is_finite() && a + b == a) }
#[cfg_attr(kani, kani::ensures(|r: &bool| post_no_overlap(a, b, *r)))]
pub fn c_no_overlap(a: f64, b: f64) -> bool { crate::base::no_overlap(a, b) }
/// contract stub (deterministic: the contract fixes the result)
pub fn s_no_overlap(a: f64, b: f64) -> bool { a.is_finite() && b.is_finite() && valid_bits(a, b) }

// ------------------------------------------------------------- fast_two_sum
pub fn pre_fts(a: f64, b: f64) -> bool {
    a.is_finite() && b.is_finite() && (a == 0.0 || b == 0.0 || eexp(a) >= eexp(b))
}
pub fn post_fts(a: f64, b: f64, r: &TwoFloat) -> bool {
    r.hi == a + b && (!r.hi.is_finite() || (valid(r.hi, r.lo) && exact2(r.hi, r.lo, a, b)))
}
#[cfg_attr(kani, kani::requires(pre_fts(a, b)))]
#[cfg_attr(kani, kani::ensures(|r: &TwoFloat| post_fts(a, b, r)))]
pub fn c_fts(a: f64, b: f64) -> TwoFloat { crate::arithmetic::fast_two_sum(a, b) }
#[cfg(kani)]
pub fn s_fts(a: f64, b: f64) -> TwoFloat {
    assert!(pre_fts(a, b), "callee precondition: fast_two_sum(a, b) needs finite words with a == 0, b == 0 or exponent(a) >= exponent(b)");
    let r: TwoFloat = kani::any();
    kani::assume(post_fts(a, b, &r));
    r
}

// ---------------------------------------------------------- new_add, new_sub
pub fn pre_new_add(a: f64, b: f64) -> bool { a.is_finite() && b.is_finite() && a.abs() < P1023 && b.abs() < P1023 }
pub fn post_new_add(a: f64, b: f64, r: &TwoFloat) -> bool {
    r.hi == a + b && valid(r.hi, r.lo) && exact2(r.hi, r.lo, a, b)
}
pub fn post_new_sub(a: f64, b: f64, r: &TwoFloat) -> bool {
    r.hi == a - b && valid(r.hi, r.lo) && exact2(r.hi, r.lo, a, -b)
}
#[cfg_attr(kani, kani::requires(pre_new_add(a, b)))]
#[cfg_attr(kani, kani::ensures(|r: &TwoFloat| post_new_add(a, b, r)))]
pub fn c_new_add(a: f64, b: f64) -> TwoFloat { TwoFloat::new_add(a, b) }
#[cfg_attr(kani, kani::requires(pre_new_add(a, b)))]
#[cfg_attr(kani, kani::ensures(|r: &TwoFloat| post_new_sub(a, b, r)))]
pub fn c_new_sub(a: f64, b: f64) -> TwoFloat { TwoFloat::new_sub(a, b) }
#[cfg(kani)]
pub fn s_new_add(a: f64, b: f64) -> TwoFloat {
    assert!(pre_new_add(a, b), "callee precondition: new_add needs finite operands below 2^1023");
    let r: TwoFloat = kani::any();
    kani::assume(post_new_add(a, b, &r));
    r
}
#[cfg(kani)]
pub fn s_new_sub(a: f64, b: f64) -> TwoFloat {
    assert!(pre_new_add(a, b), "callee precondition: new_sub needs finite operands below 2^1023");
    let r: TwoFloat = kani::any();
    kani::assume(post_new_sub(a, b, &r));
    r
}

// ---------------------------------------------------------------------- fma
/// Corrected model of the fused multiply-add.  CBMC 6.11's `fma` is wrong when one factor is an
/// exact zero and the other has a large exponent (found by a refuted obligation that replayed as
/// correct natively: fma(0.0, 0x1.000000000003fp+65, 0x1.0000000000002p-1015) returns ...08p-1015;
/// reproduced standalone, see DESIGN section 8).  For a zero factor the fused result is by
/// definition RN(+-0 + z) = (x * y) + z, which CBMC computes correctly; everywhere else CBMC's
/// single-rounding fma is used (240 seeded triples incl. subnormal / overflow agree with the
/// hardware: obligation `c04::fma_model_agreement`).  Installed over the crate's private `fma`
/// in every obligation that reasons about values through it.
pub fn fma_fixed(x: f64, y: f64, z: f64) -> f64 {
    if x == 0.0 || y == 0.0 { x * y + z } else { f64::mul_add(x, y, z) }
}

// ------------------------------------------------------------------ new_mul
pub fn pre_new_mul(a: f64, b: f64) -> bool { a.is_finite() && b.is_finite() }
/// product 0 or in [2^-960, 2^1023): the domain in which C01/C02 claim validity
pub fn mul_dom(p: f64) -> bool { p == 0.0 || (p.abs() >= M960 && p.abs() < P1023) }
pub fn post_new_mul(a: f64, b: f64, r: &TwoFloat) -> bool {
    same(r.hi, a * b) && (!mul_dom(r.hi) || valid(r.hi, r.lo))
}
#[cfg_attr(kani, kani::requires(pre_new_mul(a, b)))]
#[cfg_attr(kani, kani::ensures(|r: &TwoFloat| post_new_mul(a, b, r)))]
pub fn c_new_mul(a: f64, b: f64) -> TwoFloat { TwoFloat::new_mul(a, b) }
#[cfg(kani)]
pub fn s_new_mul(a: f64, b: f64) -> TwoFloat {
    assert!(pre_new_mul(a, b), "callee precondition: new_mul needs finite operands");
    let r: TwoFloat = kani::any();
    kani::assume(post_new_mul(a, b, &r));
    r
}

/// hi + lo == a * b exactly (Layer 2): integer product of the significands against the words decoded at the
/// product's unit.  Proved for the real `new_mul` on its whole domain by `c02::new_mul_exact_full`.
pub fn prod_exact(hi: f64, lo: f64, a: f64, b: f64) -> bool {
    let (na, ma, ea) = fld(a); let (nb, mb, eb) = fld(b);
    let p = (ma as i128) * (mb as i128);
    let p = if na != nb { -p } else { p };
    let anchor = ea + eb - 1075;
    match (at_anchor(hi, anchor, 70), at_anchor(lo, anchor, 70)) { (Some(h), Some(l)) => h + l == p, _ => false }
}
/// contract stub of new_mul including the exactness clause (in the domain where it is claimed)
#[cfg(kani)]
pub fn s_new_mul_exact(a: f64, b: f64) -> TwoFloat {
    assert!(pre_new_mul(a, b), "callee precondition: new_mul needs finite operands");
    let r: TwoFloat = kani::any();
    kani::assume(post_new_mul(a, b, &r));
    kani::assume(!(mul_dom(r.hi) && r.hi != 0.0) || prod_exact(r.hi, r.lo, a, b));
    r
}

// ------------------------------------------------- value-independent operator stubs
// Used by the panic-freedom / control-flow obligations of the elementary functions: every
// operator returns an arbitrary value that is valid or has a non-finite high word.  (The
// operators themselves contain no panicking construct: straight-line float code.)
#[cfg(kani)]
pub fn hv() -> TwoFloat { let r: TwoFloat = kani::any(); kani::assume(ival(&r)); r }
#[cfg(kani)] pub fn h_tt<'a: 'a, 'b: 'b>(_a: &'a TwoFloat, _b: &'b TwoFloat) -> TwoFloat { hv() }
#[cfg(kani)] pub fn h_tf<'a: 'a, 'b: 'b>(_a: &'a TwoFloat, _b: &'b f64) -> TwoFloat { hv() }
#[cfg(kani)] pub fn h_ft<'a: 'a, 'b: 'b>(_a: &'a f64, _b: &'b TwoFloat) -> TwoFloat { hv() }
#[cfg(kani)] pub fn h_at<'a: 'a>(a: &mut TwoFloat, _b: &'a TwoFloat) { *a = hv(); }
#[cfg(kani)] pub fn h_af<'a: 'a>(a: &mut TwoFloat, _b: &'a f64) { *a = hv(); }
#[cfg(kani)] pub fn h_f64(_x: f64) -> f64 { kani::any() }
#[cfg(kani)] pub fn h_unary(_x: TwoFloat) -> TwoFloat { hv() }
#[cfg(kani)] pub fn h_i32(_n: i32) -> TwoFloat { hv() }
#[cfg(kani)] pub fn h_av<'a: 'a>(a: &'a mut TwoFloat, _b: TwoFloat) { *a = hv(); }
