//! C14 — exponential family: totality (no panic), exact points, overflow/underflow and sign rules.
//! Accuracy floors are not decided by this family of technique (DESIGN section 9).
use super::contracts::*;
use super::spec::*;
use crate::TwoFloat;

use core::sync::atomic::{AtomicU64, Ordering::Relaxed};
static G_EXP_H: AtomicU64 = AtomicU64::new(0);
static G_EXP_L: AtomicU64 = AtomicU64::new(0);
/// value-independent stub of exp that records its result (ghost)
#[cfg(kani)]
pub fn rec_exp(_x: TwoFloat) -> TwoFloat { let r = hv(); G_EXP_H.store(r.hi.to_bits(), Relaxed); G_EXP_L.store(r.lo.to_bits(), Relaxed); r }
pub fn recorded_exp() -> TwoFloat { TwoFloat { hi: f64::from_bits(G_EXP_H.load(Relaxed)), lo: f64::from_bits(G_EXP_L.load(Relaxed)) } }

pub mod nopanic {
    use super::*;
    hv_harnesses! {
        /// exp never panics for a valid argument: the range reduction (real `TwoFloat - f64`, leaves
        /// by contract) must establish the internal `assert!` of the quarter-range helper and keep every
        /// table index in bounds; all other operators are value-independent stubs.
        #[kani::solver(kissat)] #[kani::unwind(16)]
        #[kani::stub(crate::arithmetic::fast_two_sum, s_fts)] #[kani::stub(TwoFloat::new_sub, s_new_sub)]
        fn exp_no_panic() {
            let x = any_valid();
            let r = x.exp();
            let _ = r;
            vcover!(x.hi > 1.0 && x.hi < 700.0, "reduction path reachable");
        }
        /// exp2 never panics for a valid argument
        #[kani::solver(kissat)] #[kani::unwind(16)]
        #[kani::stub(crate::arithmetic::fast_two_sum, s_fts)] #[kani::stub(TwoFloat::new_sub, s_new_sub)]
        fn exp2_no_panic() {
            let x = any_valid();
            let r = x.exp2();
            let _ = r;
            vcover!(x.hi > 1.0 && x.hi < 1000.0, "polynomial path reachable");
        }
        /// exp_m1 and powf never panic for valid arguments (exp / ln replaced by value-independent stubs:
        /// their own totality is exp_no_panic / c15::ln_no_panic)
        #[kani::solver(kissat)] #[kani::unwind(16)]
        #[kani::stub(TwoFloat::exp, h_unary)] #[kani::stub(TwoFloat::ln, h_unary)]
        fn exp_m1_powf_no_panic() {
            let x = any_valid(); let y = any_valid();
            let a = x.exp_m1();
            let b = x.powf(y);
            let _ = (a, b);
            vcover!(x.hi < 0.0 && y.hi == 3.0, "negative base with integer exponent reachable");
        }
        /// overflow / underflow rules of exp and exp2 (never a plausible finite value)
        #[kani::solver(kissat)] #[kani::unwind(16)]
        #[kani::stub(<&TwoFloat as core::ops::Sub<&f64>>::sub, h_tf)] #[kani::stub(TwoFloat::expm1_quarter, h_unary)] #[kani::stub(crate::functions::explog::exp_half, h_i32)]
        fn exp_range_rules() {
            let x = any_valid();
            if x.hi <= -750.0 { let r = x.exp(); vassert!(r.hi == 0.0 && r.lo == 0.0, "exp(x) == 0 for x <= -750"); }
            if x.hi >= 710.0 { let r = x.exp(); vassert!(!r.hi.is_finite(), "exp(x) has a non-finite high word for x >= 710"); }
            if x.hi <= -1080.0 { let r = x.exp2(); vassert!(r.hi == 0.0 && r.lo == 0.0, "exp2(x) == 0 for x <= -1080"); }
            if x.hi >= 1024.0 { let r = x.exp2(); vassert!(!r.hi.is_finite(), "exp2(x) has a non-finite high word for x >= 1024"); }
            vcover!(x.hi >= 1024.0, "overflow range reachable");
        }
        /// powf case table: 0^0 invalid, x^0 == 1, 0^y == 0, negative base: invalid for non-integer y,
        /// +-|x|^y with the sign given by the parity of an integer y (|x|^y = exp(..) is an arbitrary
        /// recorded value here)
        #[kani::solver(kissat)] #[kani::unwind(16)]
        #[kani::stub(TwoFloat::exp, rec_exp)] #[kani::stub(TwoFloat::ln, h_unary)]
        fn powf_case_table() {
            let x = any_valid(); let y = any_valid();
            let r = x.powf(y);
            if x.hi == 0.0 && y.hi == 0.0 { vassert!(!valid(r.hi, r.lo), "0^0 is invalid"); }
            else if y.hi == 0.0 { vassert!(r.hi == 1.0 && r.lo == 0.0, "x^0 == 1 for x != 0"); }
            else if x.hi == 0.0 { vassert!(r.hi == 0.0 && r.lo == 0.0, "0^y == 0 for y != 0"); }
            else if x.hi < 0.0 {
                if !is_int(y.hi) || !is_int(y.lo) { vassert!(!valid(r.hi, r.lo), "negative base with non-integer exponent is invalid"); }
                else {
                    // y = hi + lo is an integer; its parity is that of lo when lo != 0 (then hi is even), else of hi
                    let w = if y.lo != 0.0 { y.lo } else { y.hi };
                    let odd = w.abs() < 9007199254740992.0 && !is_int(w * 0.5);
                    // CBMC 6.11 mis-models the f64 remainder operator (`1.0 % 2.0` evaluates to 0.0, reproduced
                    // standalone), which powf uses for the parity test: inside the solver only "the result is
                    // +-|x|^y" is asserted; the parity rule itself is decided natively (ground obligations).
                    #[cfg(kani)]
                    {
                        let a = recorded_exp();
                        vassert!(same_tf(&r, &a) || (same(r.hi, -a.hi) && same(r.lo, -a.lo)), "integer exponent: result is +-(|x|^y)");
                    }
                    #[cfg(not(kani))]
                    { vassert!(r.hi.is_nan() || r.hi == 0.0 || (r.hi < 0.0) == odd, "sign of powf(x<0, integer y) follows the parity of y"); }
                    vcover!(odd, "odd exponent reachable");
                    vcover!(!odd && y.lo != 0.0, "even exponent with non-zero low word reachable");
                }
            }
        }
    }
}

harnesses! {
    /// exact points (ground, evaluated natively on the real code)
    fn exact_points() {
        let z = TwoFloat::from(0.0); let nz = TwoFloat::from(-0.0);
        let one = TwoFloat::from(1.0);
        vassert!(same_tf(&z.exp(), &one) && same_tf(&nz.exp(), &one), "exp(+-0) == 1");
        let e = z.exp_m1();
        vassert!(e.hi == 0.0 && e.lo == 0.0, "exp_m1(0) == 0");
        let p = TwoFloat::from(3.5).powf(z);
        vassert!(p.hi == 1.0 && p.lo == 0.0, "powf(x, 0) == 1");
        let q = z.powf(TwoFloat::from(2.5));
        vassert!(q.hi == 0.0 && q.lo == 0.0, "powf(0, y) == 0 for y > 0");
        vassert!(!z.powf(z).is_valid(), "0^0 is invalid");
        let m8 = TwoFloat::from(-2.0).powf(TwoFloat::from(3.0));
        vassert!(m8.hi < 0.0 && (m8.hi + 8.0).abs() < 1e-12, "(-2)^3 is negative, about -8");
        let p16 = TwoFloat::from(-2.0).powf(TwoFloat::from(4.0));
        vassert!(p16.hi > 0.0 && (p16.hi - 16.0).abs() < 1e-12, "(-2)^4 is positive, about 16");
        vassert!(!TwoFloat::from(-2.0).powf(TwoFloat::from(0.5)).is_valid(), "(-2)^0.5 is invalid");
    }
    /// sign of powf(x < 0, integer y) follows the parity of y: every integer |y| <= 64, y = 2^53 + {0,1,2,3}
    /// and y = 2^60 + {0, 1, 2} (parity carried by the low word), four negative bases
    fn powf_parity() {
        use core::convert::TryFrom;
        let bases = [-0.5, -1.5, -2.0, -1.0000001];
        let mut bi = 0;
        while bi < 4 {
            let x = TwoFloat::from(bases[bi]);
            let mut k = -64i32;
            while k <= 64 {
                if k != 0 {
                    let r = x.powf(TwoFloat::from(k));
                    vassert!(r.is_valid() && ((r.hi() < 0.0) == (k % 2 != 0)), "sign of powf(x<0, k) is (-1)^k");
                }
                k += 1;
            }
            bi += 1;
        }
        let one = TwoFloat::from(-1.0);
        let big = [(9007199254740992.0, 0.0, false), (9007199254740992.0, 1.0, true), (9007199254740994.0, 0.0, false), (9007199254740996.0, -1.0, true),
                   (1152921504606846976.0, 0.0, false), (1152921504606846976.0, 1.0, true), (1152921504606846976.0, 2.0, false), (1152921504606846976.0, -3.0, true)];
        let mut i = 0;
        while i < big.len() {
            let (h, l, odd) = big[i];
            if let Ok(y) = TwoFloat::try_from((h, l)) {
                let r = one.powf(y);
                vassert!(r.hi().abs() == 1.0 && ((r.hi() < 0.0) == odd), "(-1)^y for huge integer y follows the parity of y");
            } else { vassert!(false, "test exponent is a valid TwoFloat"); }
            i += 1;
        }
    }
    /// exp2(k) == 2^k exactly for every integer k in [-1022, 1022] (all 2045 values)
    fn exp2_integers() {
        let mut k = -1022i32;
        let mut bad = 0u32;
        while k <= 1022 {
            let r = TwoFloat::from(k).exp2();
            let want = f64::from_bits(((k + 1023) as u64) << 52);
            if !(r.hi == want && r.lo == 0.0) { bad += 1; }
            k += 1;
        }
        vassert!(bad == 0, "exp2(k) == 2^k exactly for all integer k in [-1022, 1022]");
    }
    /// the range-reduction witness of D3 and its neighbours do not panic and are accurate to the f64 level
    fn exp_reduction_boundaries() {
        use core::convert::TryFrom;
        let mut k = -1400i32;
        while k <= 1400 {
            // x = k/2 + 0.25 -/+ tiny: z lands on the +-0.25 boundary with a low word pushing outwards
            let hi = (k as f64) * 0.5 + 0.25;
            if let Ok(x) = TwoFloat::try_from((hi, -4e-17 * hi.abs().max(1.0))) { let r = x.exp(); vassert!(r.hi.is_nan() || r.hi >= 0.0, "exp returns"); }
            if let Ok(x) = TwoFloat::try_from((hi, 4e-17 * hi.abs().max(1.0))) { let r = x.exp(); vassert!(r.hi.is_nan() || r.hi >= 0.0, "exp returns"); }
            k += 1;
        }
    }
}
