//! Verification overlay for `twofloat` (copied into a scratch copy of the crate
//! by /verif/check; never part of /repo).  Compiled only under `cfg(kani)`
//! (Kani compiler) or `--cfg verif_replay` (native replay / ground binary).
//!
//! Every obligation is a `pub fn` harness written with the `any_*!`,
//! `vassume!`, `vassert!`, `vcover!` macros so that the same text is
//!   * a Kani proof harness (inputs symbolic, callees possibly replaced by
//!     their contract stubs), and
//!   * a native replay function (inputs from a recorded counterexample, the
//!     real un-stubbed code, Layer-1 definitional predicates).
#![allow(dead_code, unused_imports, unused_macros, clippy::all)]

#[macro_use]
pub mod rt;
#[macro_use]
pub mod hv;
pub mod spec;
pub mod contracts;
#[cfg(verif_replay)]
pub mod replay;
#[cfg(verif_replay)]
pub mod selftest;

pub mod acc;
pub mod acc_data;
pub mod c01;
pub mod c02;
pub mod c03;
pub mod c04;
pub mod c05;
pub mod c06;
pub mod c07;
pub mod c08;
pub mod c09;
pub mod c10;
pub mod c11;
pub mod c12;
pub mod c12_data;
pub mod c13;
pub mod c14;
pub mod c15;
pub mod c16;
pub mod c19;
pub mod c20;
pub mod fma_data;

/// name -> native replay entry of every harness
#[cfg(feature = "serde")]
fn serde_table() -> &'static [(&'static str, fn())] { c20::sd::TABLE }
#[cfg(not(feature = "serde"))]
fn serde_table() -> &'static [(&'static str, fn())] { &[] }

pub fn table() -> impl Iterator<Item = &'static (&'static str, fn())> {
    acc::TABLE.iter().chain(c01::TABLE.iter()).chain(c02::TABLE.iter()).chain(c03::TABLE.iter()).chain(c04::TABLE.iter()).chain(c04::agreement::TABLE.iter()).chain(c05::TABLE.iter()).chain(c06::TABLE.iter()).chain(c07::TABLE.iter()).chain(c08::TABLE.iter()).chain(c09::TABLE.iter()).chain(c10::TABLE.iter()).chain(c11::TABLE.iter()).chain(c12::TABLE.iter()).chain(c19::TABLE.iter()).chain(c20::TABLE.iter()).chain(serde_table().iter()).chain(c13::TABLE.iter()).chain(c13::solver::TABLE.iter()).chain(c14::TABLE.iter()).chain(c15::TABLE.iter()).chain(c15::solver::TABLE.iter()).chain(c16::TABLE.iter()).chain(c16::solver::TABLE.iter()).chain(c14::nopanic::TABLE.iter())
}
