//! C19 — remainder and Euclidean division follow truncated / floored quotient semantics.
//! Structure (which quotient, which adjustment) is proved with the operators as arbitrary fixed
//! functions; integer operands are checked exhaustively for |a|, |b| <= 256 natively (complete
//! over that finite set); the 16 * 2^-106 tolerance for general operands is not decided.
use super::contracts::*;
use super::spec::*;
use crate::TwoFloat;

harnesses! {
    /// integer operands: %, div_euclid, rem_euclid are exact (all 513 x 512 pairs, both f64 spellings)
    fn integers_exact() {
        let mut bad = 0u32;
        let mut a = -256i32;
        while a <= 256 {
            let mut b = -256i32;
            while b <= 256 {
                if b != 0 {
                    let (x, y) = (TwoFloat::from(a), TwoFloat::from(b));
                    let want_rem = (a % b) as f64;            // truncated quotient semantics
                    let want_re = a.rem_euclid(b) as f64; let want_de = a.div_euclid(b) as f64;
                    let r1 = x % y; let r2 = x % (b as f64); let r3 = (a as f64) % y;
                    let mut r4 = x; r4 %= y; let mut r5 = x; r5 %= b as f64;
                    let ok = |r: TwoFloat, w: f64| r.hi() == w && r.lo() == 0.0;
                    if !(ok(r1, want_rem) && ok(r2, want_rem) && ok(r3, want_rem) && ok(r4, want_rem) && ok(r5, want_rem)) { bad += 1; }
                    if !ok(x.rem_euclid(y), want_re) { bad += 1; }
                    if !ok(x.div_euclid(y), want_de) { bad += 1; }
                }
                b += 1;
            }
            a += 1;
        }
        vassert!(bad == 0, "%, %=, div_euclid, rem_euclid are exact on integer operands |a|,|b| <= 256");
    }
    /// tolerance clause on a seeded sample of 500 valid non-integer operand pairs with |a/b| <= 2^40 (ground, native, exact Fix):
    /// r = a % b satisfies |a - r - k*b| <= 16 * 2^-106 * max(|a|,|b|) for an integer k, |r| < |b| and r has the sign of a;
    /// q = div_euclid is an integer with -tol <= a - q*b < |b| + tol; rem_euclid == a - q*b within tol.  A finite sample.
    fn tolerance_sample() {
        #[cfg(not(kani))]
        {
            use core::convert::TryFrom;
            use super::spec::fix::{fx, Fix};
            let mut st: u64 = 0x13198A2E03707344;
            let mut nx = || { st ^= st << 13; st ^= st >> 7; st ^= st << 17; st };
            let mut mk = |r1: u64, r2: u64, r3: u64, emin: u64, span: u64| -> TwoFloat {
                let e = emin + (r1 >> 40) % span;
                let hi = f64::from_bits((r1 & 0x800f_ffff_ffff_ffff) | (e << 52));
                let u = f64::from_bits(hi.to_bits() & 0x7ff0_0000_0000_0000) * 1.1102230246251565e-16;
                let frac = match r2 % 4 { 0 => 0.0, 1 => 0.5, _ => (r3 >> 11) as f64 / 9007199254740992.0 };
                let lo = u * frac * 0.9999 * (if r2 & 64 != 0 { -1.0 } else { 1.0 });
                TwoFloat::try_from((hi, lo)).unwrap_or(TwoFloat::from(hi))
            };
            // exact k * b for an integer-valued f64 k with |k| < 2^53
            let kb = |k: f64, b: &TwoFloat| -> Fix {
                let m = k.abs() as u64; let vb = val(b);
                let mut acc = Fix::zero(); let mut i = 0;
                while i < 54 { if (m >> i) & 1 != 0 { acc = acc.add(vb.shl(i)); } i += 1; }
                if k < 0.0 { acc.neg() } else { acc }
            };
            let mut bad = 0u32; let mut n = 0u32;
            while n < 500 {
                let b = mk(nx(), nx(), nx(), 1023 - 20, 41);
                let be = (b.hi().to_bits() >> 52) & 0x7ff;
                let a = mk(nx(), nx(), nx(), be - 10, 49);   // |a/b| in about [2^-11, 2^40]
                n += 1;
                let (va, vb) = (val(&a), val(&b));
                let big = if va.abs().le(vb.abs()) { vb.abs() } else { va.abs() };
                let tol_ok = |err: Fix| Fix::rel_le(err, big, 16, 106);
                let r = a % b;
                let k = ((a.hi() - r.hi()) / b.hi()).round();
                if !(r.is_valid() && k.abs() < 4503599627370496.0 && tol_ok(va.sub(val(&r)).sub(kb(k, &b))) && val(&r).abs().le(vb.abs())
                     && (r.hi() == 0.0 || (r.hi() < 0.0) == (a.hi() < 0.0))) { bad += 1; extern crate std; std::eprintln!("C19-SAMPLE-FAIL rem a=({:e},{:e}) b=({:e},{:e}) r=({:e},{:e}) k={}", a.hi(), a.lo(), b.hi(), b.lo(), r.hi(), r.lo(), k); }
                let q = a.div_euclid(b); let e = a.rem_euclid(b);
                let rem = va.sub(kb(q.hi(), &b).add(kb(q.lo(), &b)));
                let slack = big.mul_small(16);       // 16 * big, compared after shifting the other side by 106
                let ge0 = !rem.shl(106).add(slack).is_neg();
                let ltb = rem.shl(106).sub(slack).cmp(vb.abs().shl(106)) == core::cmp::Ordering::Less;
                if !(q.is_valid() && val(&q).is_int() && ge0 && ltb) { bad += 1; extern crate std; std::eprintln!("C19-SAMPLE-FAIL div_euclid a=({:e},{:e}) b=({:e},{:e}) q=({:e},{:e}) int={} ge0={} ltb={}", a.hi(), a.lo(), b.hi(), b.lo(), q.hi(), q.lo(), val(&q).is_int(), ge0, ltb); }
                if !(e.is_valid() && tol_ok(val(&e).sub(rem))) { bad += 1; extern crate std; std::eprintln!("C19-SAMPLE-FAIL rem_euclid a=({:e},{:e}) b=({:e},{:e}) e=({:e},{:e})", a.hi(), a.lo(), b.hi(), b.lo(), e.hi(), e.lo()); }
            }
            vassert!(bad == 0, "%, div_euclid, rem_euclid within the stated tolerance on every sample pair");
        }
    }
    /// integers up to 2^53 in magnitude (structured sample): exact
    fn big_integers_exact() {
        let av: [i64; 8] = [9007199254740991, -9007199254740991, 4503599627370497, 123456789012345, -987654321098765, 9007199254740990, 1, -1];
        let bv: [i64; 8] = [3, -7, 4503599627370496, 1000003, -999983, 9007199254740991, 2, 94906267];
        let mut bad = 0u32;
        for &a in av.iter() { for &b in bv.iter() {
            let (x, y) = (TwoFloat::from(a), TwoFloat::from(b));
            let ok = |r: TwoFloat, w: i64| r.hi() == w as f64 && r.lo() == 0.0;
            if !ok(x % y, a % b) { bad += 1; }
            if !ok(x.rem_euclid(y), a.rem_euclid(b)) { bad += 1; }
            if !ok(x.div_euclid(y), a.div_euclid(b)) { bad += 1; }
        } }
        vassert!(bad == 0, "%, div_euclid, rem_euclid exact on integers below 2^53");
    }
    /// a % b is a - trunc(a / b) * b in all three pairings (operators arbitrary fixed functions)
    #[kani::solver(kissat)] #[kani::unwind(6)]
    #[kani::stub(<&TwoFloat as core::ops::Div<&TwoFloat>>::div, super::c10::ack_div_tt)] #[kani::stub(<&TwoFloat as core::ops::Div<&f64>>::div, super::c10::ack_div_tf)]
    #[kani::stub(<&f64 as core::ops::Div<&TwoFloat>>::div, super::c10::ack_div_ft)] #[kani::stub(<&TwoFloat as core::ops::Mul<&TwoFloat>>::mul, super::c10::ack_mul_tt)]
    #[kani::stub(<&TwoFloat as core::ops::Mul<&f64>>::mul, super::c10::ack_mul_tf)] #[kani::stub(TwoFloat::trunc, super::c10::ack_trunc)]
    #[kani::stub(<&TwoFloat as core::ops::Sub<&TwoFloat>>::sub, super::c10::ack_sub_tt)] #[kani::stub(<&f64 as core::ops::Sub<&TwoFloat>>::sub, super::c10::ack_sub_ft)]
    fn rem_is_truncated_formula_tf_tf() {
        let a = any_tf(); let b = any_tf();
        vassert!(same_tf(&(a % b), &(a - (a / b).trunc() * b)), "a % b == a - trunc(a / b) * b");
    }
    #[kani::solver(kissat)] #[kani::unwind(6)]
    #[kani::stub(<&TwoFloat as core::ops::Div<&TwoFloat>>::div, super::c10::ack_div_tt)] #[kani::stub(<&TwoFloat as core::ops::Div<&f64>>::div, super::c10::ack_div_tf)]
    #[kani::stub(<&f64 as core::ops::Div<&TwoFloat>>::div, super::c10::ack_div_ft)] #[kani::stub(<&TwoFloat as core::ops::Mul<&TwoFloat>>::mul, super::c10::ack_mul_tt)]
    #[kani::stub(<&TwoFloat as core::ops::Mul<&f64>>::mul, super::c10::ack_mul_tf)] #[kani::stub(TwoFloat::trunc, super::c10::ack_trunc)]
    #[kani::stub(<&TwoFloat as core::ops::Sub<&TwoFloat>>::sub, super::c10::ack_sub_tt)] #[kani::stub(<&f64 as core::ops::Sub<&TwoFloat>>::sub, super::c10::ack_sub_ft)]
    fn rem_is_truncated_formula_tf_f64() {
        let a = any_tf(); let f = any_f64!();
        vassert!(same_tf(&(a % f), &(a - (a / f).trunc() * f)), "a % f == a - trunc(a / f) * f");
    }
    #[kani::solver(kissat)] #[kani::unwind(6)]
    #[kani::stub(<&TwoFloat as core::ops::Div<&TwoFloat>>::div, super::c10::ack_div_tt)] #[kani::stub(<&TwoFloat as core::ops::Div<&f64>>::div, super::c10::ack_div_tf)]
    #[kani::stub(<&f64 as core::ops::Div<&TwoFloat>>::div, super::c10::ack_div_ft)] #[kani::stub(<&TwoFloat as core::ops::Mul<&TwoFloat>>::mul, super::c10::ack_mul_tt)]
    #[kani::stub(<&TwoFloat as core::ops::Mul<&f64>>::mul, super::c10::ack_mul_tf)] #[kani::stub(TwoFloat::trunc, super::c10::ack_trunc)]
    #[kani::stub(<&TwoFloat as core::ops::Sub<&TwoFloat>>::sub, super::c10::ack_sub_tt)] #[kani::stub(<&f64 as core::ops::Sub<&TwoFloat>>::sub, super::c10::ack_sub_ft)]
    fn rem_is_truncated_formula_f64_tf() {
        let b = any_tf(); let f = any_f64!();
        vassert!(same_tf(&(f % b), &(f - (f / b).trunc() * b)), "f % b == f - trunc(f / b) * b");
    }
    /// rem_euclid adds |b| to a negative remainder; div_euclid adjusts the truncated quotient by one towards the floor/ceil
    #[kani::solver(kissat)] #[kani::unwind(6)] #[kani::stub(crate::base::no_overlap, s_no_overlap)]
    #[kani::stub(<&TwoFloat as core::ops::Rem<&TwoFloat>>::rem, ack_rem_tt)] #[kani::stub(<&TwoFloat as core::ops::Add<&TwoFloat>>::add, ack_add_tt)]
    fn rem_euclid_structure() {
        let a = any_tf(); let b = any_tf();
        let r = a % b;
        let e = a.rem_euclid(b);
        if r < 0.0 { vassert!(same_tf(&e, &(r + b.abs())), "negative remainder: rem_euclid == r + |b|"); }
        else { vassert!(same_tf(&e, &r), "non-negative remainder: rem_euclid == r"); }
    }
}
use core::sync::atomic::{AtomicBool, AtomicU64, Ordering::Relaxed};
macro_rules! ack_op2 { ($stub:ident, $set:ident, $k:ident, $r0:ident, $r1:ident) => {
    static $set: AtomicBool = AtomicBool::new(false);
    static $k: [AtomicU64; 4] = [AtomicU64::new(0), AtomicU64::new(0), AtomicU64::new(0), AtomicU64::new(0)];
    static $r0: AtomicU64 = AtomicU64::new(0); static $r1: AtomicU64 = AtomicU64::new(0);
    #[cfg(kani)]
    pub fn $stub<'a: 'a, 'b: 'b>(x: &'a TwoFloat, y: &'b TwoFloat) -> TwoFloat {
        let ks = [x.hi.to_bits(), x.lo.to_bits(), y.hi.to_bits(), y.lo.to_bits()];
        if $set.load(Relaxed) && $k[0].load(Relaxed) == ks[0] && $k[1].load(Relaxed) == ks[1] && $k[2].load(Relaxed) == ks[2] && $k[3].load(Relaxed) == ks[3] {
            return TwoFloat { hi: f64::from_bits($r0.load(Relaxed)), lo: f64::from_bits($r1.load(Relaxed)) };
        }
        let r: TwoFloat = kani::any();
        if !$set.load(Relaxed) { $set.store(true, Relaxed); $k[0].store(ks[0], Relaxed); $k[1].store(ks[1], Relaxed); $k[2].store(ks[2], Relaxed); $k[3].store(ks[3], Relaxed); $r0.store(r.hi.to_bits(), Relaxed); $r1.store(r.lo.to_bits(), Relaxed); }
        r
    }
}; }
ack_op2!(ack_rem_tt, S_REM, K_REM, R0_REM, R1_REM);
ack_op2!(ack_add_tt, S_ADD, K_ADD, R0_ADD, R1_ADD);
