//! C19 — remainder and Euclidean division follow truncated / floored quotient semantics.
//! Structure (which quotient, which adjustment) is proved with the operators as arbitrary fixed
//! functions; integer operands are checked exhaustively for |a|, |b| <= 256 natively (complete
//! over that finite set); the 16 * 2^-106 tolerance for general operands is not decided.
use super::contracts::*;
use super::spec::*;
use crate::TwoFloat;

harnesses! {
    /// integer operands: %, div_euclid, rem_euclid are exact (all 513 x 512 pairs, both f64 spellings)
    fn integers_exact() {
        let mut bad = 0u32;
        let mut a = -256i32;
        while a <= 256 {
            let mut b = -256i32;
            while b <= 256 {
                if b != 0 {
                    let (x, y) = (TwoFloat::from(a), TwoFloat::from(b));
                    let want_rem = (a % b) as f64;            // truncated quotient semantics
                    let want_re = a.rem_euclid(b) as f64; let want_de = a.div_euclid(b) as f64;
                    let r1 = x % y; let r2 = x % (b as f64); let r3 = (a as f64) % y;
                    let mut r4 = x; r4 %= y; let mut r5 = x; r5 %= b as f64;
                    let ok = |r: TwoFloat, w: f64| r.hi() == w && r.lo() == 0.0;
                    if !(ok(r1, want_rem) && ok(r2, want_rem) && ok(r3, want_rem) && ok(r4, want_rem) && ok(r5, want_rem)) { bad += 1; }
                    if !ok(x.rem_euclid(y), want_re) { bad += 1; }
                    if !ok(x.div_euclid(y), want_de) { bad += 1; }
                }
                b += 1;
            }
            a += 1;
        }
        vassert!(bad == 0, "%, %=, div_euclid, rem_euclid are exact on integer operands |a|,|b| <= 256");
    }
    /// integers up to 2^53 in magnitude (structured sample): exact
    fn big_integers_exact() {
        let av: [i64; 8] = [9007199254740991, -9007199254740991, 4503599627370497, 123456789012345, -987654321098765, 9007199254740990, 1, -1];
        let bv: [i64; 8] = [3, -7, 4503599627370496, 1000003, -999983, 9007199254740991, 2, 94906267];
        let mut bad = 0u32;
        for &a in av.iter() { for &b in bv.iter() {
            let (x, y) = (TwoFloat::from(a), TwoFloat::from(b));
            let ok = |r: TwoFloat, w: i64| r.hi() == w as f64 && r.lo() == 0.0;
            if !ok(x % y, a % b) { bad += 1; }
            if !ok(x.rem_euclid(y), a.rem_euclid(b)) { bad += 1; }
            if !ok(x.div_euclid(y), a.div_euclid(b)) { bad += 1; }
        } }
        vassert!(bad == 0, "%, div_euclid, rem_euclid exact on integers below 2^53");
    }
    /// a % b is a - trunc(a / b) * b in all three pairings (operators arbitrary fixed functions)
    #[kani::solver(kissat)] #[kani::unwind(6)]
    #[kani::stub(<&TwoFloat as core::ops::Div<&TwoFloat>>::div, super::c10::ack_div_tt)] #[kani::stub(<&TwoFloat as core::ops::Div<&f64>>::div, super::c10::ack_div_tf)]
    #[kani::stub(<&f64 as core::ops::Div<&TwoFloat>>::div, super::c10::ack_div_ft)] #[kani::stub(<&TwoFloat as core::ops::Mul<&TwoFloat>>::mul, super::c10::ack_mul_tt)]
    #[kani::stub(<&TwoFloat as core::ops::Mul<&f64>>::mul, super::c10::ack_mul_tf)] #[kani::stub(TwoFloat::trunc, super::c10::ack_trunc)]
    #[kani::stub(<&TwoFloat as core::ops::Sub<&TwoFloat>>::sub, super::c10::ack_sub_tt)] #[kani::stub(<&f64 as core::ops::Sub<&TwoFloat>>::sub, super::c10::ack_sub_ft)]
    fn rem_is_truncated_formula_tf_tf() {
        let a = any_tf(); let b = any_tf();
        vassert!(same_tf(&(a % b), &(a - (a / b).trunc() * b)), "a % b == a - trunc(a / b) * b");
    }
    #[kani::solver(kissat)] #[kani::unwind(6)]
    #[kani::stub(<&TwoFloat as core::ops::Div<&TwoFloat>>::div, super::c10::ack_div_tt)] #[kani::stub(<&TwoFloat as core::ops::Div<&f64>>::div, super::c10::ack_div_tf)]
    #[kani::stub(<&f64 as core::ops::Div<&TwoFloat>>::div, super::c10::ack_div_ft)] #[kani::stub(<&TwoFloat as core::ops::Mul<&TwoFloat>>::mul, super::c10::ack_mul_tt)]
    #[kani::stub(<&TwoFloat as core::ops::Mul<&f64>>::mul, super::c10::ack_mul_tf)] #[kani::stub(TwoFloat::trunc, super::c10::ack_trunc)]
    #[kani::stub(<&TwoFloat as core::ops::Sub<&TwoFloat>>::sub, super::c10::ack_sub_tt)] #[kani::stub(<&f64 as core::ops::Sub<&TwoFloat>>::sub, super::c10::ack_sub_ft)]
    fn rem_is_truncated_formula_tf_f64() {
        let a = any_tf(); let f = any_f64!();
        vassert!(same_tf(&(a % f), &(a - (a / f).trunc() * f)), "a % f == a - trunc(a / f) * f");
    }
    #[kani::solver(kissat)] #[kani::unwind(6)]
    #[kani::stub(<&TwoFloat as core::ops::Div<&TwoFloat>>::div, super::c10::ack_div_tt)] #[kani::stub(<&TwoFloat as core::ops::Div<&f64>>::div, super::c10::ack_div_tf)]
    #[kani::stub(<&f64 as core::ops::Div<&TwoFloat>>::div, super::c10::ack_div_ft)] #[kani::stub(<&TwoFloat as core::ops::Mul<&TwoFloat>>::mul, super::c10::ack_mul_tt)]
    #[kani::stub(<&TwoFloat as core::ops::Mul<&f64>>::mul, super::c10::ack_mul_tf)] #[kani::stub(TwoFloat::trunc, super::c10::ack_trunc)]
    #[kani::stub(<&TwoFloat as core::ops::Sub<&TwoFloat>>::sub, super::c10::ack_sub_tt)] #[kani::stub(<&f64 as core::ops::Sub<&TwoFloat>>::sub, super::c10::ack_sub_ft)]
    fn rem_is_truncated_formula_f64_tf() {
        let b = any_tf(); let f = any_f64!();
        vassert!(same_tf(&(f % b), &(f - (f / b).trunc() * b)), "f % b == f - trunc(f / b) * b");
    }
    /// rem_euclid adds |b| to a negative remainder; div_euclid adjusts the truncated quotient by one towards the floor/ceil
    #[kani::solver(kissat)] #[kani::unwind(6)] #[kani::stub(crate::base::no_overlap, s_no_overlap)]
    #[kani::stub(<&TwoFloat as core::ops::Rem<&TwoFloat>>::rem, ack_rem_tt)] #[kani::stub(<&TwoFloat as core::ops::Add<&TwoFloat>>::add, ack_add_tt)]
    fn rem_euclid_structure() {
        let a = any_tf(); let b = any_tf();
        let r = a % b;
        let e = a.rem_euclid(b);
        if r < 0.0 { vassert!(same_tf(&e, &(r + b.abs())), "negative remainder: rem_euclid == r + |b|"); }
        else { vassert!(same_tf(&e, &r), "non-negative remainder: rem_euclid == r"); }
    }
}
use core::sync::atomic::{AtomicBool, AtomicU64, Ordering::Relaxed};
macro_rules! ack_op2 { ($stub:ident, $set:ident, $k:ident, $r0:ident, $r1:ident) => {
    static $set: AtomicBool = AtomicBool::new(false);
    static $k: [AtomicU64; 4] = [AtomicU64::new(0), AtomicU64::new(0), AtomicU64::new(0), AtomicU64::new(0)];
    static $r0: AtomicU64 = AtomicU64::new(0); static $r1: AtomicU64 = AtomicU64::new(0);
    #[cfg(kani)]
    pub fn $stub<'a: 'a, 'b: 'b>(x: &'a TwoFloat, y: &'b TwoFloat) -> TwoFloat {
        let ks = [x.hi.to_bits(), x.lo.to_bits(), y.hi.to_bits(), y.lo.to_bits()];
        if $set.load(Relaxed) && $k[0].load(Relaxed) == ks[0] && $k[1].load(Relaxed) == ks[1] && $k[2].load(Relaxed) == ks[2] && $k[3].load(Relaxed) == ks[3] {
            return TwoFloat { hi: f64::from_bits($r0.load(Relaxed)), lo: f64::from_bits($r1.load(Relaxed)) };
        }
        let r: TwoFloat = kani::any();
        if !$set.load(Relaxed) { $set.store(true, Relaxed); $k[0].store(ks[0], Relaxed); $k[1].store(ks[1], Relaxed); $k[2].store(ks[2], Relaxed); $k[3].store(ks[3], Relaxed); $r0.store(r.hi.to_bits(), Relaxed); $r1.store(r.lo.to_bits(), Relaxed); }
        r
    }
}; }
ack_op2!(ack_rem_tt, S_REM, K_REM, R0_REM, R1_REM);
ack_op2!(ack_add_tt, S_ADD, K_ADD, R0_ADD, R1_ADD);
