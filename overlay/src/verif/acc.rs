//! Accuracy clauses of C13-C18 on a finite reference sample (ground, native).  The accuracy floors are not
//! decidable by contracts over a bit-vector solver; this module evaluates the real functions on the seeded,
//! stratified operands of `acc_data.rs` and compares with the mpmath reference in exact `Fix` arithmetic
//! against the allowed error of the property's clause.  Reported as `ground_evaluated` (a finite set), never
//! as proof.
use super::acc_data::ACC;
use super::spec::fix::{fx, Fix};
use super::spec::*;
use crate::TwoFloat;

fn tf(h: u64, l: u64) -> TwoFloat { TwoFloat { hi: f64::from_bits(h), lo: f64::from_bits(l) } }

fn eval(fid: u8, x: TwoFloat, y: TwoFloat) -> TwoFloat {
    match fid {
        1 => x.sqrt(), 2 => x.cbrt(), 3 => x.hypot(y), 4 => x.powi(y.hi as i32),
        5 => x.exp(), 6 => x.exp2(), 7 => x.exp_m1(), 8 => x.powf(y),
        9 => x.ln(), 10 => x.log2(), 11 => x.log10(), 12 => x.ln_1p(),
        13 => x.sin(), 14 => x.cos(), 15 => x.tan(),
        16 => x.asin(), 17 => x.acos(), 18 => x.atan(), 19 => x.atan2(y),
        20 => x.sinh(), 21 => x.cosh(), 22 => x.tanh(), 23 => x.asinh(), 24 => x.acosh(), _ => x.atanh(),
    }
}

/// number of sample points of functions lo..=hi whose result is invalid or outside the allowed error
fn failures(lo: u8, hi: u8) -> (u32, u32) {
    let mut bad = 0u32; let mut n = 0u32;
    let mut i = 0;
    while i < ACC.len() {
        let (fid, xh, xl, yh, yl, r1, r2, r3, tol) = ACC[i];
        if fid >= lo && fid <= hi {
            n += 1;
            let x = tf(xh, xl); let y = tf(yh, yl);
            let r = eval(fid, x, y);
            let ok = r.hi.is_finite() && r.lo.is_finite() && valid_def(r.hi, r.lo) && {
                let c = fx(r.hi).add(fx(r.lo));
                let want = fx(f64::from_bits(r1)).add(fx(f64::from_bits(r2))).add(fx(f64::from_bits(r3)));
                c.sub(want).abs().le(fx(f64::from_bits(tol)))
            };
            if !ok {
                bad += 1;
                #[cfg(not(kani))]
                { extern crate std; std::eprintln!("ACCURACY-SAMPLE-FAIL fn={} x=({:e},{:e}) y=({:e},{:e}) got=({:e},{:e}) ref={:e} tol={:e}", fid, x.hi, x.lo, y.hi, y.lo, r.hi, r.lo, f64::from_bits(r1), f64::from_bits(tol)); }
            }
        }
        i += 1;
    }
    (bad, n)
}

harnesses! {
    fn c13_accuracy_sample() { let (b, n) = failures(1, 4); vassert!(n > 100 && b == 0, "sqrt, cbrt, hypot, powi within the stated bounds on every reference sample"); }
    fn c14_accuracy_sample() { let (b, n) = failures(5, 8); vassert!(n > 100 && b == 0, "exp, exp2, exp_m1, powf within the stated bounds on every reference sample"); }
    fn c15_accuracy_sample() { let (b, n) = failures(9, 12); vassert!(n > 100 && b == 0, "ln, log2, log10, ln_1p within the stated bounds on every reference sample"); }
    fn c16_accuracy_sample() { let (b, n) = failures(13, 15); vassert!(n > 100 && b == 0, "sin, cos, tan within the stated bounds on every reference sample"); }
    fn c17_accuracy_sample() { let (b, n) = failures(16, 19); vassert!(n > 100 && b == 0, "asin, acos, atan, atan2 within the stated bounds on every reference sample"); }
    fn c18_accuracy_sample() { let (b, n) = failures(20, 25); vassert!(n > 100 && b == 0, "sinh, cosh, tanh, asinh, acosh, atanh within the stated bounds on every reference sample"); }
}
