//! C04 — multiplication meets the proven double-word error bounds; C05 — division (f64 divisor).
//!
//! As for C03 the bounds are decomposed: (a) every body is bit-identical, for all operand
//! patterns, to the published algorithm (Joldes-Muller-Popescu 2017: Alg. 9 DWTimesFP3,
//! Alg. 12 DWTimesDW3, Alg. 15 DWDivFP3) over `new_mul` / `fast_two_sum` and a correctly
//! rounded fma [this file]; (b) the leaf contracts [c02.rs; exactness of `new_mul` itself is
//! the classical 2Prod theorem, proved here only for short significands]; (c) the algorithm's
//! error bound: assumed lemma (published, Coq-formalised by Muller-Rideau 2022).  The exact
//! clauses (zero factor, x*(+-1), x*2^k, zero numerator, x/(+-1), x/2^k) are proved directly.
//! Natively every obligation is judged by the stated bound itself in `Fix`... for products the
//! exact product is formed by shift-and-add of the 53-bit significand.
use super::contracts::*;
use super::spec::fix::{fx, Fix};
use super::spec::*;
use crate::arithmetic::fast_two_sum;
use crate::TwoFloat;

/// the fused multiply-add the algorithms are stated over (IEEE, single rounding).  The miters
/// below do NOT stub the crate's private `fma`: both sides call the same primitive
/// (`f64::mul_add`; in the no-std build `libm::fma` is replaced by it, its assumed contract), so
/// an edit of either cfg-selected `fma` definition makes the sides differ whatever the model of
/// the primitive is.
#[inline]
pub fn fma_ieee(x: f64, y: f64, z: f64) -> f64 { f64::mul_add(x, y, z) }

pub fn alg9(xh: f64, xl: f64, y: f64) -> TwoFloat {
    let c = TwoFloat::new_mul(xh, y);
    let cl3 = fma_ieee(xl, y, c.lo);
    fast_two_sum(c.hi, cl3)
}
pub fn alg12(xh: f64, xl: f64, yh: f64, yl: f64) -> TwoFloat {
    let c = TwoFloat::new_mul(xh, yh);
    let tl0 = xl * yl;
    let tl1 = fma_ieee(xh, yl, tl0);
    let cl2 = fma_ieee(xl, yh, tl1);
    let cl3 = c.lo + cl2;
    fast_two_sum(c.hi, cl3)
}
pub fn alg15(xh: f64, xl: f64, y: f64) -> TwoFloat {
    let th = xh / y;
    let p = TwoFloat::new_mul(th, y);
    let dh = xh - p.hi;
    let dt = dh - p.lo;
    let d = dt + xl;
    let tl = d / y;
    fast_two_sum(th, tl)
}

/// exact product of a Fix value (non-negative or negative) with a finite f64 (shift-and-add over the significand)
#[cfg(not(kani))]
pub fn fix_mul_f64(v: Fix, y: f64) -> Fix {
    let (n, m, e) = fld(y);
    // y = +-m * 2^(e-1075); accumulate v*m then scale: to stay inside Fix we scale v down first when e < 1075
    let mut acc = Fix::zero();
    let mut i = 0;
    while i < 53 { if (m >> i) & 1 != 0 { acc = acc.add(v.shl(i)); } i += 1; }
    let _ = e;
    if n { acc.neg() } else { acc }
}

/// |r - x*y| <= num * 2^-106 * |x*y| judged exactly: scaled by 2^(1075-e_y) on both sides (native only)
#[cfg(not(kani))]
pub fn mul_bound_ok(r: &TwoFloat, x: &TwoFloat, yh: f64, yl: f64, num: u64) -> bool {
    if !(r.hi.is_finite() && r.lo.is_finite()) { return false; }
    // exact product P = (xh + xl) * (yh + yl); all in units where y's words are integers: scale by 2^(1075 - e)
    // with e the smaller effective exponent of yh, yl (non-zero ones)
    let eh = if yh == 0.0 { i32::MAX } else { fld(yh).2 };
    let el = if yl == 0.0 { i32::MAX } else { fld(yl).2 };
    let e = if eh < el { eh } else { el };
    if e == i32::MAX { return r.hi == 0.0 && r.lo == 0.0; }
    let vx = val(x);
    let term = |y: f64| -> Fix {
        if y == 0.0 { return Fix::zero(); }
        let (n, m, ey) = fld(y);
        let mut acc = Fix::zero();
        let mut i = 0;
        while i < 53 { if (m >> i) & 1 != 0 { acc = acc.add(vx.shl(i + (ey - e) as usize)); } i += 1; }
        if n { acc.neg() } else { acc }
    };
    // P * 2^(1075-e)
    let p = term(yh).add(term(yl));
    // r * 2^(1075-e): shifting by (1075 - e) may be negative; compare instead r * 2^k vs P where both scaled by 2^s
    let s = 1075 - e; // P = true_product * 2^s
    let rv = val(r);
    let (lhs, rhs) = if s >= 0 { (rv.shl(s as usize), p) } else { (rv, p.shl((-s) as usize)) };
    Fix::rel_le(lhs.sub(rhs), rhs, num, 106)
}

#[derive(Clone, Copy, PartialEq)]
pub enum F { Op, Assign }

// ---- (c) mechanised for Algorithm 9: the 2u^2 bound per exponent gap of the multiplicand's words, with ghost values.
// new_mul and fast_two_sum are replaced by their (proved) contracts and record their arguments/results; the one
// inexact operation left is cl3 = fma(xl, y, cl1).  With delta := xl*y + cl1 - cl3 computed exactly (integer product
// of the significands, 256-bit window anchored at the unit of xl*y) the exactness contracts give
// result - x*y = -delta, and the obligation is |delta| * 2^105 <= |zh + zl|.
use core::sync::atomic::{AtomicU64, Ordering::Relaxed};
static G9_CH: AtomicU64 = AtomicU64::new(0);
static G9_CL: AtomicU64 = AtomicU64::new(0);
static G9_FA: AtomicU64 = AtomicU64::new(0);
static G9_FB: AtomicU64 = AtomicU64::new(0);
#[cfg(kani)]
pub fn g9_new_mul(a: f64, b: f64) -> TwoFloat {
    let r = s_new_mul_exact(a, b);
    G9_CH.store(r.hi.to_bits(), Relaxed); G9_CL.store(r.lo.to_bits(), Relaxed);
    r
}
#[cfg(kani)]
pub fn g9_fts(a: f64, b: f64) -> TwoFloat {
    let r = s_fts(a, b);
    G9_FA.store(a.to_bits(), Relaxed); G9_FB.store(b.to_bits(), Relaxed);
    r
}
/// gap = eexp(x.hi) - eexp(x.lo) (53..=112), 1000: x.lo == 0 or farther than 112 binades below
pub fn acc9_case(gap: i32) {
    use super::spec::win::W;
    let x = any_valid(); let y = any_f64!();
    vassume!(in450(x.hi) && in450(y) && x.hi != 0.0 && y != 0.0);
    let g = eexp(x.hi) - eexp(x.lo);
    if gap == 1000 { vassume!(x.lo == 0.0 || g > 112) } else { vassume!(x.lo != 0.0 && g == gap) }
    let r = &x * &y;
    vassert!(valid(r.hi, r.lo), "result is a valid TwoFloat");
    #[cfg(kani)]
    {
        let ch = f64::from_bits(G9_CH.load(Relaxed)); let cl1 = f64::from_bits(G9_CL.load(Relaxed));
        let fa = f64::from_bits(G9_FA.load(Relaxed)); let cl3 = f64::from_bits(G9_FB.load(Relaxed));
        vassert!(fa == ch, "structure: the final fast_two_sum is applied to (ch, cl3)");
        if x.lo == 0.0 {
            vassert!(cl3 == cl1, "zero low word: cl3 == cl1, no rounding error");
        } else {
            // exact xl * y in units of 2^(A2 - 1075), A2 = e(xl) + e(y) - 1075
            let (nl, ml, el) = fld(x.lo); let (ny, my, ey) = fld(y);
            let p2 = (ml as u128) * (my as u128);
            let a2 = el + ey - 1075;
            let mut pw = W([p2 as u64, (p2 >> 64) as u64, 0, 0]);
            if nl != ny { pw = pw.neg(); }
            match (W::at(cl1, a2, 190), W::at(cl3, a2, 190)) {
                (Some(c1), Some(c3)) => {
                    let delta = pw.add(c1).sub(c3);
                    let dmag = delta.abs();
                    // (no separate size claim on delta: the bound below is the claim; delta is about 2^(gap - 2) units)
                    let ok = match (W::at(r.hi, a2, 190), W::at(r.lo, a2, 190)) {
                        (Some(zh), Some(zl)) => dmag.shl(105).le(zh.add(zl).add(delta).abs()),
                        (None, _) => eexp(r.hi) - a2 > 190,
                        _ => false,
                    };
                    vassert!(ok, "|delta| * 2^105 <= |result + delta| = |x*y|  (relative error <= 2 * 2^-106)");
                }
                _ => {
                    // cl1 / cl3 not representable in the window: only possible in the far case, where the fma returns cl1
                    vassert!(gap == 1000 && cl3 == cl1, "far case: cl3 == cl1");
                }
            }
        }
    }
    #[cfg(not(kani))]
    { vassert!(mul_bound_ok(&r, &x, y, 0.0, 2), "TwoFloat * f64 within 2 * 2^-106 of the exact product"); }
    vcover!(r.lo != 0.0, "non-trivial result reachable");
}

// ---- witness search / bounded stand-in for the product bounds: domain B(12) (12-bit significands, high words
// in [2^-30, 2^30], low words 0 or >= 2^-90): every partial product is then exact in f64 and the exact product
// is their sum in a 512-bit window with unit 2^-260
use super::c03::{bhi, short_k, BK};
use super::spec::win::Y;
pub const ANCH_M: i32 = 1075 - 260;
pub fn blo_m(x: f64) -> bool { short_k(x, BK) && (x == 0.0 || x.abs() >= 8.077935669463161e-28) }
pub fn mul_bound_win(r: &TwoFloat, parts: [f64; 4], num: u64) -> bool {
    let mut e = Y::zero();
    let mut i = 0;
    while i < 4 { match Y::at(parts[i], ANCH_M, 330) { Some(v) => { e = e.add(v); } None => return false } i += 1; }
    match (Y::at(r.hi, ANCH_M, 330), Y::at(r.lo, ANCH_M, 330)) {
        (Some(zh), Some(zl)) => zh.add(zl).sub(e).abs().shl(106).le(e.abs().mul_small(num)),
        _ => false,
    }
}
fn bound_mul_f64_case(f64_left: bool, form: F) {
    let x = any_valid(); let y = any_f64!();
    vassume!(bhi(x.hi) && blo_m(x.lo) && bhi(y));
    let r = match (f64_left, form) {
        (false, F::Op) => &x * &y,
        (true, _) => &y * &x,
        (false, F::Assign) => { let mut t = x; t *= &y; t }
    };
    #[cfg(kani)]
    { vassert!(valid(r.hi, r.lo) && mul_bound_win(&r, [x.hi * y, x.lo * y, 0.0, 0.0], 2), "TwoFloat * f64 valid and within 2 * 2^-106 of the exact product"); }
    #[cfg(not(kani))]
    { vassert!(valid(r.hi, r.lo) && mul_bound_ok(&r, &x, y, 0.0, 2), "TwoFloat * f64 valid and within 2 * 2^-106 of the exact product"); }
    vcover!(x.lo != 0.0 && r.lo != 0.0, "non-trivial operands reachable");
}
fn bound_mul_tf_case(form: F) {
    let x = any_valid(); let y = any_valid();
    vassume!(bhi(x.hi) && blo_m(x.lo) && bhi(y.hi) && blo_m(y.lo));
    let r = match form { F::Op => &x * &y, F::Assign => { let mut t = x; t *= &y; t } };
    #[cfg(kani)]
    { vassert!(valid(r.hi, r.lo) && mul_bound_win(&r, [x.hi * y.hi, x.hi * y.lo, x.lo * y.hi, x.lo * y.lo], 5), "TwoFloat * TwoFloat valid and within 5 * 2^-106 of the exact product"); }
    #[cfg(not(kani))]
    { vassert!(valid(r.hi, r.lo) && mul_bound_ok(&r, &x, y.hi, y.lo, 5), "TwoFloat * TwoFloat valid and within 5 * 2^-106 of the exact product"); }
    vcover!(x.lo != 0.0 && y.lo != 0.0 && r.lo != 0.0, "non-trivial operands reachable");
}

pub fn mul_f64_case(f64_left: bool, form: F) {
    let x = any_tf(); let y = any_f64!();
    #[cfg(not(kani))]
    { vassume!(valid(x.hi, x.lo) && in450(x.hi) && in450(y)); }
    let r = match (f64_left, form) {
        (false, F::Op) => &x * &y,
        (true, _) => &y * &x,
        (false, F::Assign) => { let mut t = x; t *= &y; t }
    };
    #[cfg(kani)]
    { vassert!(same_tf(&r, &alg9(x.hi, x.lo, y)), "operator body is bit-identical to Algorithm 9 (DWTimesFP3)"); }
    #[cfg(not(kani))]
    { vassert!(mul_bound_ok(&r, &x, y, 0.0, 2), "TwoFloat * f64 within 2 * 2^-106 of the exact product"); }
}
pub fn mul_tf_case(form: F) {
    let x = any_tf(); let y = any_tf();
    #[cfg(not(kani))]
    { vassume!(valid(x.hi, x.lo) && valid(y.hi, y.lo) && in450(x.hi) && in450(y.hi)); }
    let r = match form { F::Op => &x * &y, F::Assign => { let mut t = x; t *= &y; t } };
    #[cfg(kani)]
    { vassert!(same_tf(&r, &alg12(x.hi, x.lo, y.hi, y.lo)), "operator body is bit-identical to Algorithm 12 (DWTimesDW3)"); }
    #[cfg(not(kani))]
    { vassert!(mul_bound_ok(&r, &x, y.hi, y.lo, 5), "TwoFloat * TwoFloat within 5 * 2^-106 of the exact product"); }
}
pub fn div_f64_case(form: F) { div_f64_case_b(form, false) }
/// `bounded`: witness-search variant of the same miter on the domain B(12) (kissat can then produce a model)
pub fn div_f64_case_b(form: F, bounded: bool) {
    let x = any_tf(); let y = any_f64!();
    #[cfg(kani)]
    { if bounded { vassume!(valid(x.hi, x.lo) && bhi(x.hi) && blo_m(x.lo) && bhi(y)); } }
    #[cfg(not(kani))]
    { vassume!(valid(x.hi, x.lo) && in450(x.hi) && x.hi != 0.0 && in450(y) && y != 0.0); }
    let r = match form { F::Op => &x / &y, F::Assign => { let mut t = x; t /= &y; t } };
    #[cfg(kani)]
    { vassert!(same_tf(&r, &alg15(x.hi, x.lo, y)), "operator body is bit-identical to Algorithm 15 (DWDivFP3)"); }
    #[cfg(not(kani))]
    {
        // |r - x/y| <= 3 * 2^-106 |x/y|  <=>  |r*y - x| <= 3 * 2^-106 |x|
        let ry = { let mut t = Fix::zero(); let (n, m, e) = fld(y); let rv = val(&r); let mut i = 0; while i < 53 { if (m >> i) & 1 != 0 { t = t.add(rv.shl(i)); } i += 1; } let _ = e; if n { t.neg() } else { t } };
        let (_, _, e) = fld(y);
        let s = 1075 - e; // ry = r*y * 2^s
        let xv = val(&x);
        let (lhs, rhs) = if s >= 0 { (ry, xv.shl(s as usize)) } else { (ry.shl((-s) as usize), xv) };
        vassert!(Fix::rel_le(lhs.sub(rhs), rhs, 3, 106), "TwoFloat / f64 within 3 * 2^-106 of the exact quotient");
    }
}

harnesses! {
    #[kani::solver(cvc5)] fn alg9_mul_tf_f64() { mul_f64_case(false, F::Op) }
    #[kani::solver(cvc5)] fn alg9_mul_f64_tf() { mul_f64_case(true, F::Op) }
    #[kani::solver(cvc5)] fn alg9_mul_assign_f64() { mul_f64_case(false, F::Assign) }
    #[kani::solver(cvc5)] fn alg12_mul_tf_tf() { mul_tf_case(F::Op) }
    #[kani::solver(cvc5)] fn alg12_mul_assign_tf() { mul_tf_case(F::Assign) }
    // ---- generated: 2u^2 bound of Algorithm 9 per gap between the exponent fields of the multiplicand's words
    #[kani::solver(kissat)] #[kani::unwind(6)] #[kani::stub(crate::arithmetic::fma, fma_fixed)] #[kani::stub(TwoFloat::new_mul, g9_new_mul)] #[kani::stub(crate::arithmetic::fast_two_sum, g9_fts)] fn acc9_gap_53() { acc9_case(53) }
    #[kani::solver(kissat)] #[kani::unwind(6)] #[kani::stub(crate::arithmetic::fma, fma_fixed)] #[kani::stub(TwoFloat::new_mul, g9_new_mul)] #[kani::stub(crate::arithmetic::fast_two_sum, g9_fts)] fn acc9_gap_54() { acc9_case(54) }
    #[kani::solver(kissat)] #[kani::unwind(6)] #[kani::stub(crate::arithmetic::fma, fma_fixed)] #[kani::stub(TwoFloat::new_mul, g9_new_mul)] #[kani::stub(crate::arithmetic::fast_two_sum, g9_fts)] fn acc9_gap_55() { acc9_case(55) }
    #[kani::solver(kissat)] #[kani::unwind(6)] #[kani::stub(crate::arithmetic::fma, fma_fixed)] #[kani::stub(TwoFloat::new_mul, g9_new_mul)] #[kani::stub(crate::arithmetic::fast_two_sum, g9_fts)] fn acc9_gap_56() { acc9_case(56) }
    #[kani::solver(kissat)] #[kani::unwind(6)] #[kani::stub(crate::arithmetic::fma, fma_fixed)] #[kani::stub(TwoFloat::new_mul, g9_new_mul)] #[kani::stub(crate::arithmetic::fast_two_sum, g9_fts)] fn acc9_gap_57() { acc9_case(57) }
    #[kani::solver(kissat)] #[kani::unwind(6)] #[kani::stub(crate::arithmetic::fma, fma_fixed)] #[kani::stub(TwoFloat::new_mul, g9_new_mul)] #[kani::stub(crate::arithmetic::fast_two_sum, g9_fts)] fn acc9_gap_58() { acc9_case(58) }
    #[kani::solver(kissat)] #[kani::unwind(6)] #[kani::stub(crate::arithmetic::fma, fma_fixed)] #[kani::stub(TwoFloat::new_mul, g9_new_mul)] #[kani::stub(crate::arithmetic::fast_two_sum, g9_fts)] fn acc9_gap_59() { acc9_case(59) }
    #[kani::solver(kissat)] #[kani::unwind(6)] #[kani::stub(crate::arithmetic::fma, fma_fixed)] #[kani::stub(TwoFloat::new_mul, g9_new_mul)] #[kani::stub(crate::arithmetic::fast_two_sum, g9_fts)] fn acc9_gap_60() { acc9_case(60) }
    #[kani::solver(kissat)] #[kani::unwind(6)] #[kani::stub(crate::arithmetic::fma, fma_fixed)] #[kani::stub(TwoFloat::new_mul, g9_new_mul)] #[kani::stub(crate::arithmetic::fast_two_sum, g9_fts)] fn acc9_gap_61() { acc9_case(61) }
    #[kani::solver(kissat)] #[kani::unwind(6)] #[kani::stub(crate::arithmetic::fma, fma_fixed)] #[kani::stub(TwoFloat::new_mul, g9_new_mul)] #[kani::stub(crate::arithmetic::fast_two_sum, g9_fts)] fn acc9_gap_62() { acc9_case(62) }
    #[kani::solver(kissat)] #[kani::unwind(6)] #[kani::stub(crate::arithmetic::fma, fma_fixed)] #[kani::stub(TwoFloat::new_mul, g9_new_mul)] #[kani::stub(crate::arithmetic::fast_two_sum, g9_fts)] fn acc9_gap_63() { acc9_case(63) }
    #[kani::solver(kissat)] #[kani::unwind(6)] #[kani::stub(crate::arithmetic::fma, fma_fixed)] #[kani::stub(TwoFloat::new_mul, g9_new_mul)] #[kani::stub(crate::arithmetic::fast_two_sum, g9_fts)] fn acc9_gap_64() { acc9_case(64) }
    #[kani::solver(kissat)] #[kani::unwind(6)] #[kani::stub(crate::arithmetic::fma, fma_fixed)] #[kani::stub(TwoFloat::new_mul, g9_new_mul)] #[kani::stub(crate::arithmetic::fast_two_sum, g9_fts)] fn acc9_gap_65() { acc9_case(65) }
    #[kani::solver(kissat)] #[kani::unwind(6)] #[kani::stub(crate::arithmetic::fma, fma_fixed)] #[kani::stub(TwoFloat::new_mul, g9_new_mul)] #[kani::stub(crate::arithmetic::fast_two_sum, g9_fts)] fn acc9_gap_66() { acc9_case(66) }
    #[kani::solver(kissat)] #[kani::unwind(6)] #[kani::stub(crate::arithmetic::fma, fma_fixed)] #[kani::stub(TwoFloat::new_mul, g9_new_mul)] #[kani::stub(crate::arithmetic::fast_two_sum, g9_fts)] fn acc9_gap_67() { acc9_case(67) }
    #[kani::solver(kissat)] #[kani::unwind(6)] #[kani::stub(crate::arithmetic::fma, fma_fixed)] #[kani::stub(TwoFloat::new_mul, g9_new_mul)] #[kani::stub(crate::arithmetic::fast_two_sum, g9_fts)] fn acc9_gap_68() { acc9_case(68) }
    #[kani::solver(kissat)] #[kani::unwind(6)] #[kani::stub(crate::arithmetic::fma, fma_fixed)] #[kani::stub(TwoFloat::new_mul, g9_new_mul)] #[kani::stub(crate::arithmetic::fast_two_sum, g9_fts)] fn acc9_gap_69() { acc9_case(69) }
    #[kani::solver(kissat)] #[kani::unwind(6)] #[kani::stub(crate::arithmetic::fma, fma_fixed)] #[kani::stub(TwoFloat::new_mul, g9_new_mul)] #[kani::stub(crate::arithmetic::fast_two_sum, g9_fts)] fn acc9_gap_70() { acc9_case(70) }
    #[kani::solver(kissat)] #[kani::unwind(6)] #[kani::stub(crate::arithmetic::fma, fma_fixed)] #[kani::stub(TwoFloat::new_mul, g9_new_mul)] #[kani::stub(crate::arithmetic::fast_two_sum, g9_fts)] fn acc9_gap_71() { acc9_case(71) }
    #[kani::solver(kissat)] #[kani::unwind(6)] #[kani::stub(crate::arithmetic::fma, fma_fixed)] #[kani::stub(TwoFloat::new_mul, g9_new_mul)] #[kani::stub(crate::arithmetic::fast_two_sum, g9_fts)] fn acc9_gap_72() { acc9_case(72) }
    #[kani::solver(kissat)] #[kani::unwind(6)] #[kani::stub(crate::arithmetic::fma, fma_fixed)] #[kani::stub(TwoFloat::new_mul, g9_new_mul)] #[kani::stub(crate::arithmetic::fast_two_sum, g9_fts)] fn acc9_gap_73() { acc9_case(73) }
    #[kani::solver(kissat)] #[kani::unwind(6)] #[kani::stub(crate::arithmetic::fma, fma_fixed)] #[kani::stub(TwoFloat::new_mul, g9_new_mul)] #[kani::stub(crate::arithmetic::fast_two_sum, g9_fts)] fn acc9_gap_74() { acc9_case(74) }
    #[kani::solver(kissat)] #[kani::unwind(6)] #[kani::stub(crate::arithmetic::fma, fma_fixed)] #[kani::stub(TwoFloat::new_mul, g9_new_mul)] #[kani::stub(crate::arithmetic::fast_two_sum, g9_fts)] fn acc9_gap_75() { acc9_case(75) }
    #[kani::solver(kissat)] #[kani::unwind(6)] #[kani::stub(crate::arithmetic::fma, fma_fixed)] #[kani::stub(TwoFloat::new_mul, g9_new_mul)] #[kani::stub(crate::arithmetic::fast_two_sum, g9_fts)] fn acc9_gap_76() { acc9_case(76) }
    #[kani::solver(kissat)] #[kani::unwind(6)] #[kani::stub(crate::arithmetic::fma, fma_fixed)] #[kani::stub(TwoFloat::new_mul, g9_new_mul)] #[kani::stub(crate::arithmetic::fast_two_sum, g9_fts)] fn acc9_gap_77() { acc9_case(77) }
    #[kani::solver(kissat)] #[kani::unwind(6)] #[kani::stub(crate::arithmetic::fma, fma_fixed)] #[kani::stub(TwoFloat::new_mul, g9_new_mul)] #[kani::stub(crate::arithmetic::fast_two_sum, g9_fts)] fn acc9_gap_78() { acc9_case(78) }
    #[kani::solver(kissat)] #[kani::unwind(6)] #[kani::stub(crate::arithmetic::fma, fma_fixed)] #[kani::stub(TwoFloat::new_mul, g9_new_mul)] #[kani::stub(crate::arithmetic::fast_two_sum, g9_fts)] fn acc9_gap_79() { acc9_case(79) }
    #[kani::solver(kissat)] #[kani::unwind(6)] #[kani::stub(crate::arithmetic::fma, fma_fixed)] #[kani::stub(TwoFloat::new_mul, g9_new_mul)] #[kani::stub(crate::arithmetic::fast_two_sum, g9_fts)] fn acc9_gap_80() { acc9_case(80) }
    #[kani::solver(kissat)] #[kani::unwind(6)] #[kani::stub(crate::arithmetic::fma, fma_fixed)] #[kani::stub(TwoFloat::new_mul, g9_new_mul)] #[kani::stub(crate::arithmetic::fast_two_sum, g9_fts)] fn acc9_gap_81() { acc9_case(81) }
    #[kani::solver(kissat)] #[kani::unwind(6)] #[kani::stub(crate::arithmetic::fma, fma_fixed)] #[kani::stub(TwoFloat::new_mul, g9_new_mul)] #[kani::stub(crate::arithmetic::fast_two_sum, g9_fts)] fn acc9_gap_82() { acc9_case(82) }
    #[kani::solver(kissat)] #[kani::unwind(6)] #[kani::stub(crate::arithmetic::fma, fma_fixed)] #[kani::stub(TwoFloat::new_mul, g9_new_mul)] #[kani::stub(crate::arithmetic::fast_two_sum, g9_fts)] fn acc9_gap_83() { acc9_case(83) }
    #[kani::solver(kissat)] #[kani::unwind(6)] #[kani::stub(crate::arithmetic::fma, fma_fixed)] #[kani::stub(TwoFloat::new_mul, g9_new_mul)] #[kani::stub(crate::arithmetic::fast_two_sum, g9_fts)] fn acc9_gap_84() { acc9_case(84) }
    #[kani::solver(kissat)] #[kani::unwind(6)] #[kani::stub(crate::arithmetic::fma, fma_fixed)] #[kani::stub(TwoFloat::new_mul, g9_new_mul)] #[kani::stub(crate::arithmetic::fast_two_sum, g9_fts)] fn acc9_gap_85() { acc9_case(85) }
    #[kani::solver(kissat)] #[kani::unwind(6)] #[kani::stub(crate::arithmetic::fma, fma_fixed)] #[kani::stub(TwoFloat::new_mul, g9_new_mul)] #[kani::stub(crate::arithmetic::fast_two_sum, g9_fts)] fn acc9_gap_86() { acc9_case(86) }
    #[kani::solver(kissat)] #[kani::unwind(6)] #[kani::stub(crate::arithmetic::fma, fma_fixed)] #[kani::stub(TwoFloat::new_mul, g9_new_mul)] #[kani::stub(crate::arithmetic::fast_two_sum, g9_fts)] fn acc9_gap_87() { acc9_case(87) }
    #[kani::solver(kissat)] #[kani::unwind(6)] #[kani::stub(crate::arithmetic::fma, fma_fixed)] #[kani::stub(TwoFloat::new_mul, g9_new_mul)] #[kani::stub(crate::arithmetic::fast_two_sum, g9_fts)] fn acc9_gap_88() { acc9_case(88) }
    #[kani::solver(kissat)] #[kani::unwind(6)] #[kani::stub(crate::arithmetic::fma, fma_fixed)] #[kani::stub(TwoFloat::new_mul, g9_new_mul)] #[kani::stub(crate::arithmetic::fast_two_sum, g9_fts)] fn acc9_gap_89() { acc9_case(89) }
    #[kani::solver(kissat)] #[kani::unwind(6)] #[kani::stub(crate::arithmetic::fma, fma_fixed)] #[kani::stub(TwoFloat::new_mul, g9_new_mul)] #[kani::stub(crate::arithmetic::fast_two_sum, g9_fts)] fn acc9_gap_90() { acc9_case(90) }
    #[kani::solver(kissat)] #[kani::unwind(6)] #[kani::stub(crate::arithmetic::fma, fma_fixed)] #[kani::stub(TwoFloat::new_mul, g9_new_mul)] #[kani::stub(crate::arithmetic::fast_two_sum, g9_fts)] fn acc9_gap_91() { acc9_case(91) }
    #[kani::solver(kissat)] #[kani::unwind(6)] #[kani::stub(crate::arithmetic::fma, fma_fixed)] #[kani::stub(TwoFloat::new_mul, g9_new_mul)] #[kani::stub(crate::arithmetic::fast_two_sum, g9_fts)] fn acc9_gap_92() { acc9_case(92) }
    #[kani::solver(kissat)] #[kani::unwind(6)] #[kani::stub(crate::arithmetic::fma, fma_fixed)] #[kani::stub(TwoFloat::new_mul, g9_new_mul)] #[kani::stub(crate::arithmetic::fast_two_sum, g9_fts)] fn acc9_gap_93() { acc9_case(93) }
    #[kani::solver(kissat)] #[kani::unwind(6)] #[kani::stub(crate::arithmetic::fma, fma_fixed)] #[kani::stub(TwoFloat::new_mul, g9_new_mul)] #[kani::stub(crate::arithmetic::fast_two_sum, g9_fts)] fn acc9_gap_94() { acc9_case(94) }
    #[kani::solver(kissat)] #[kani::unwind(6)] #[kani::stub(crate::arithmetic::fma, fma_fixed)] #[kani::stub(TwoFloat::new_mul, g9_new_mul)] #[kani::stub(crate::arithmetic::fast_two_sum, g9_fts)] fn acc9_gap_95() { acc9_case(95) }
    #[kani::solver(kissat)] #[kani::unwind(6)] #[kani::stub(crate::arithmetic::fma, fma_fixed)] #[kani::stub(TwoFloat::new_mul, g9_new_mul)] #[kani::stub(crate::arithmetic::fast_two_sum, g9_fts)] fn acc9_gap_96() { acc9_case(96) }
    #[kani::solver(kissat)] #[kani::unwind(6)] #[kani::stub(crate::arithmetic::fma, fma_fixed)] #[kani::stub(TwoFloat::new_mul, g9_new_mul)] #[kani::stub(crate::arithmetic::fast_two_sum, g9_fts)] fn acc9_gap_97() { acc9_case(97) }
    #[kani::solver(kissat)] #[kani::unwind(6)] #[kani::stub(crate::arithmetic::fma, fma_fixed)] #[kani::stub(TwoFloat::new_mul, g9_new_mul)] #[kani::stub(crate::arithmetic::fast_two_sum, g9_fts)] fn acc9_gap_98() { acc9_case(98) }
    #[kani::solver(kissat)] #[kani::unwind(6)] #[kani::stub(crate::arithmetic::fma, fma_fixed)] #[kani::stub(TwoFloat::new_mul, g9_new_mul)] #[kani::stub(crate::arithmetic::fast_two_sum, g9_fts)] fn acc9_gap_99() { acc9_case(99) }
    #[kani::solver(kissat)] #[kani::unwind(6)] #[kani::stub(crate::arithmetic::fma, fma_fixed)] #[kani::stub(TwoFloat::new_mul, g9_new_mul)] #[kani::stub(crate::arithmetic::fast_two_sum, g9_fts)] fn acc9_gap_100() { acc9_case(100) }
    #[kani::solver(kissat)] #[kani::unwind(6)] #[kani::stub(crate::arithmetic::fma, fma_fixed)] #[kani::stub(TwoFloat::new_mul, g9_new_mul)] #[kani::stub(crate::arithmetic::fast_two_sum, g9_fts)] fn acc9_gap_101() { acc9_case(101) }
    #[kani::solver(kissat)] #[kani::unwind(6)] #[kani::stub(crate::arithmetic::fma, fma_fixed)] #[kani::stub(TwoFloat::new_mul, g9_new_mul)] #[kani::stub(crate::arithmetic::fast_two_sum, g9_fts)] fn acc9_gap_102() { acc9_case(102) }
    #[kani::solver(kissat)] #[kani::unwind(6)] #[kani::stub(crate::arithmetic::fma, fma_fixed)] #[kani::stub(TwoFloat::new_mul, g9_new_mul)] #[kani::stub(crate::arithmetic::fast_two_sum, g9_fts)] fn acc9_gap_103() { acc9_case(103) }
    #[kani::solver(kissat)] #[kani::unwind(6)] #[kani::stub(crate::arithmetic::fma, fma_fixed)] #[kani::stub(TwoFloat::new_mul, g9_new_mul)] #[kani::stub(crate::arithmetic::fast_two_sum, g9_fts)] fn acc9_gap_104() { acc9_case(104) }
    #[kani::solver(kissat)] #[kani::unwind(6)] #[kani::stub(crate::arithmetic::fma, fma_fixed)] #[kani::stub(TwoFloat::new_mul, g9_new_mul)] #[kani::stub(crate::arithmetic::fast_two_sum, g9_fts)] fn acc9_gap_105() { acc9_case(105) }
    #[kani::solver(kissat)] #[kani::unwind(6)] #[kani::stub(crate::arithmetic::fma, fma_fixed)] #[kani::stub(TwoFloat::new_mul, g9_new_mul)] #[kani::stub(crate::arithmetic::fast_two_sum, g9_fts)] fn acc9_gap_106() { acc9_case(106) }
    #[kani::solver(kissat)] #[kani::unwind(6)] #[kani::stub(crate::arithmetic::fma, fma_fixed)] #[kani::stub(TwoFloat::new_mul, g9_new_mul)] #[kani::stub(crate::arithmetic::fast_two_sum, g9_fts)] fn acc9_gap_107() { acc9_case(107) }
    #[kani::solver(kissat)] #[kani::unwind(6)] #[kani::stub(crate::arithmetic::fma, fma_fixed)] #[kani::stub(TwoFloat::new_mul, g9_new_mul)] #[kani::stub(crate::arithmetic::fast_two_sum, g9_fts)] fn acc9_gap_108() { acc9_case(108) }
    #[kani::solver(kissat)] #[kani::unwind(6)] #[kani::stub(crate::arithmetic::fma, fma_fixed)] #[kani::stub(TwoFloat::new_mul, g9_new_mul)] #[kani::stub(crate::arithmetic::fast_two_sum, g9_fts)] fn acc9_gap_109() { acc9_case(109) }
    #[kani::solver(kissat)] #[kani::unwind(6)] #[kani::stub(crate::arithmetic::fma, fma_fixed)] #[kani::stub(TwoFloat::new_mul, g9_new_mul)] #[kani::stub(crate::arithmetic::fast_two_sum, g9_fts)] fn acc9_gap_110() { acc9_case(110) }
    #[kani::solver(kissat)] #[kani::unwind(6)] #[kani::stub(crate::arithmetic::fma, fma_fixed)] #[kani::stub(TwoFloat::new_mul, g9_new_mul)] #[kani::stub(crate::arithmetic::fast_two_sum, g9_fts)] fn acc9_gap_111() { acc9_case(111) }
    #[kani::solver(kissat)] #[kani::unwind(6)] #[kani::stub(crate::arithmetic::fma, fma_fixed)] #[kani::stub(TwoFloat::new_mul, g9_new_mul)] #[kani::stub(crate::arithmetic::fast_two_sum, g9_fts)] fn acc9_gap_112() { acc9_case(112) }
    #[kani::solver(kissat)] #[kani::unwind(6)] #[kani::stub(crate::arithmetic::fma, fma_fixed)] #[kani::stub(TwoFloat::new_mul, g9_new_mul)] #[kani::stub(crate::arithmetic::fast_two_sum, g9_fts)] fn acc9_far() { acc9_case(1000) }
    /// the gap cases exhaust the domain: a valid x with non-zero low word and high word in [2^-450, 2^450] has gap >= 53
    #[kani::solver(kissat)]
    fn acc9_cases_cover() {
        let x = any_valid();
        vassume!(in450(x.hi) && x.hi != 0.0);
        let g = eexp(x.hi) - eexp(x.lo);
        vassert!(x.lo == 0.0 || g >= 53, "non-zero low word of a valid pair lies at least 53 binades below the high word");
    }

    // witness search / bounded stand-ins B(12): the product bound itself on the real operators
    #[kani::solver(kissat)] #[kani::unwind(70)] fn bound_mul_tf_f64() { bound_mul_f64_case(false, F::Op) }
    #[kani::solver(kissat)] #[kani::unwind(70)] fn bound_mul_f64_tf() { bound_mul_f64_case(true, F::Op) }
    #[kani::solver(kissat)] #[kani::unwind(70)] fn bound_mul_assign_f64() { bound_mul_f64_case(false, F::Assign) }
    #[kani::solver(kissat)] #[kani::unwind(70)] fn bound_mul_tf_tf() { bound_mul_tf_case(F::Op) }
    #[kani::solver(kissat)] #[kani::unwind(70)] fn bound_mul_assign_tf() { bound_mul_tf_case(F::Assign) }
    #[kani::solver(kissat)] fn witness_div_tf_f64() { div_f64_case_b(F::Op, true) }
    #[kani::solver(kissat)] fn witness_div_assign_f64() { div_f64_case_b(F::Assign, true) }
    #[kani::solver(cvc5)] fn alg15_div_tf_f64() { div_f64_case(F::Op) }
    #[kani::solver(cvc5)] fn alg15_div_assign_f64() { div_f64_case(F::Assign) }
    /// new_div(a, b) is Algorithm 15 with a zero low word
    #[kani::solver(cvc5)]
    fn alg15_new_div() {
        let a = any_f64!(); let b = any_f64!();
        let r = TwoFloat::new_div(a, b);
        #[cfg(kani)]
        {
            // Algorithm 15 specialised to a zero low word (the addition `dt + 0` is dropped: it is exact)
            let th = a / b;
            let p = TwoFloat::new_mul(th, b);
            let d = (a - p.hi) - p.lo;
            let e = fast_two_sum(th, d / b);
            vassert!(same_tf(&r, &e), "new_div(a, b) is bit-identical to Algorithm 15 with a zero low word");
        }
        #[cfg(not(kani))]
        {
            vassume!(a.abs() >= 3.2e-145 && a.abs() <= 3.1e144 && b.abs() >= 3.2e-145 && b.abs() <= 3.1e144);
            let (_, m, e) = fld(b); let rv = val(&r);
            let mut t = Fix::zero(); let mut i = 0; while i < 53 { if (m >> i) & 1 != 0 { t = t.add(rv.shl(i)); } i += 1; }
            if b < 0.0 { t = t.neg(); }
            let s = 1075 - e; let xv = fx(a);
            let (lhs, rhs) = if s >= 0 { (t, xv.shl(s as usize)) } else { (t.shl((-s) as usize), xv) };
            vassert!(Fix::rel_le(lhs.sub(rhs), rhs, 3, 106), "new_div within 3 * 2^-106 of the exact quotient");
        }
    }

    /// a zero factor gives an exactly zero product (all five bodies; two obligations)
    #[kani::solver(kissat)] #[kani::stub(crate::arithmetic::fma, fma_fixed)] #[kani::stub(crate::arithmetic::fast_two_sum, s_fts)]
    fn mul_zero_factor_f64() {
        let x = any_valid(); let f = any_f64!();
        vassume!(in450(x.hi) && in450(f));
        vassume!(x.hi == 0.0 || f == 0.0);
        let z = |r: TwoFloat| r.hi == 0.0 && r.lo == 0.0;
        let mut u = x; u *= f;
        vassert!(z(x * f) && z(f * x) && z(u), "zero factor gives a zero product (TwoFloat * f64, f64 * TwoFloat, *=)");
        vcover!(x.hi != 0.0, "non-zero times zero reachable");
    }
    #[kani::solver(kissat)] #[kani::stub(crate::arithmetic::fma, fma_fixed)] #[kani::stub(crate::arithmetic::fast_two_sum, s_fts)]
    fn mul_zero_factor_tf() {
        let x = any_valid(); let y = any_valid();
        vassume!(in450(x.hi) && in450(y.hi));
        vassume!(x.hi == 0.0 || y.hi == 0.0);
        let z = |r: TwoFloat| r.hi == 0.0 && r.lo == 0.0;
        let mut t = x; t *= y;
        vassert!(z(x * y) && z(t), "zero factor gives a zero product (TwoFloat * TwoFloat, *=)");
        vcover!(x.hi == 0.0 && y.hi != 0.0, "zero times non-zero reachable");
    }
    /// multiplying by +-1 is exact (value equality; the sign of a zero low word may differ)
    #[kani::solver(kissat)] #[kani::stub(crate::arithmetic::fma, fma_fixed)]
    fn mul_by_one_f64() {
        let x = any_valid();
        vassume!(in450(x.hi));
        let (a, b) = (x * 1.0, 1.0 * x);
        vassert!(a.hi == x.hi && a.lo == x.lo && b.hi == x.hi && b.lo == x.lo, "x * 1.0 == 1.0 * x == x");
        let mut t = x; t *= 1.0;
        vassert!(t.hi == x.hi && t.lo == x.lo, "x *= 1.0 keeps x");
        vcover!(x.lo != 0.0, "non-zero low word reachable");
    }
    #[kani::solver(kissat)] #[kani::stub(crate::arithmetic::fma, fma_fixed)]
    fn mul_by_minus_one_f64() {
        let x = any_valid();
        vassume!(in450(x.hi));
        let (a, b) = (x * -1.0, -1.0 * x);
        vassert!(a.hi == -x.hi && a.lo == -x.lo && b.hi == -x.hi && b.lo == -x.lo, "x * -1.0 == -1.0 * x == -x");
        vcover!(x.lo != 0.0, "non-zero low word reachable");
    }
    #[kani::solver(kissat)] #[kani::stub(crate::arithmetic::fma, fma_fixed)]
    fn mul_by_one_tf() {
        let x = any_valid();
        vassume!(in450(x.hi));
        let one = TwoFloat::from(1.0);
        let a = x * one;
        vassert!(a.hi == x.hi && a.lo == x.lo, "x * TwoFloat(1) == x");
        let mut u = x; u *= one;
        vassert!(u.hi == x.hi && u.lo == x.lo, "x *= TwoFloat(1) keeps x");
        vcover!(x.lo != 0.0, "non-zero low word reachable");
    }
    #[kani::solver(kissat)] #[kani::stub(crate::arithmetic::fma, fma_fixed)]
    fn mul_one_tf_by_x() {
        let x = any_valid();
        vassume!(in450(x.hi));
        let one = TwoFloat::from(1.0);
        let b = one * x;
        vassert!(b.hi == x.hi && b.lo == x.lo, "TwoFloat(1) * x == x");
        vcover!(x.lo != 0.0, "non-zero low word reachable");
    }
    #[kani::solver(kissat)] #[kani::stub(crate::arithmetic::fma, fma_fixed)]
    fn mul_by_minus_one_tf() {
        let x = any_valid();
        vassume!(in450(x.hi));
        let mone = TwoFloat::from(-1.0);
        let a = x * mone;
        vassert!(a.hi == -x.hi && a.lo == -x.lo, "x * TwoFloat(-1) == -x");
        vcover!(x.lo != 0.0, "non-zero low word reachable");
    }
    /// multiplying by a power of two is exact whenever the scaled low word does not underflow
    #[kani::solver(kissat)] #[kani::stub(crate::arithmetic::fma, fma_fixed)]
    fn mul_pow2_exact() {
        let x = any_valid();
        vassume!(in450(x.hi));
        let k = any_i32!(); vassume!(k >= -450 && k <= 450);
        let p = f64::from_bits(((k + 1023) as u64) << 52);
        vassume!(x.lo == 0.0 || (x.lo * p).abs() >= f64::MIN_POSITIVE);
        let r = x * p; let q = p * x; let s = x * TwoFloat::from(p);
        vassert!(r.hi == x.hi * p && r.lo == x.lo * p, "x * 2^k scales both words exactly");
        vassert!(q.hi == r.hi && q.lo == r.lo && s.hi == r.hi && s.lo == r.lo, "2^k * x and x * TwoFloat(2^k) likewise");
        vcover!(x.lo != 0.0 && k < -300, "large negative exponent reachable");
    }
}

/// model agreement: the (corrected) fma model equals the hardware fma on 240 seeded triples
/// (generic, zero factor, tiny x huge, subnormal results, exact cancellation)
pub mod agreement {
    use super::super::contracts::fma_fixed;
    use super::super::fma_data::T;
    harnesses! {
        #[kani::solver(kissat)] #[kani::unwind(245)]
        fn fma_model_agreement() {
            let mut i = 0;
            let mut bad = 0u32;
            while i < T.len() {
                let (x, y, z, r) = T[i];
                let a = fma_fixed(f64::from_bits(x), f64::from_bits(y), f64::from_bits(z));
                if !(a.to_bits() == r || (a.is_nan() && f64::from_bits(r).is_nan())) { bad += 1; }
                i += 1;
            }
            vassert!(bad == 0, "corrected fma model agrees with the hardware on every seeded triple");
            vassert!(T.len() == 240, "table complete");
        }
    }
}
