//! C04 — multiplication meets the proven double-word error bounds; C05 — division (f64 divisor).
//!
//! As for C03 the bounds are decomposed: (a) every body is bit-identical, for all operand
//! patterns, to the published algorithm (Joldes-Muller-Popescu 2017: Alg. 9 DWTimesFP3,
//! Alg. 12 DWTimesDW3, Alg. 15 DWDivFP3) over `new_mul` / `fast_two_sum` and a correctly
//! rounded fma [this file]; (b) the leaf contracts [c02.rs; exactness of `new_mul` itself is
//! the classical 2Prod theorem, proved here only for short significands]; (c) the algorithm's
//! error bound: assumed lemma (published, Coq-formalised by Muller-Rideau 2022).  The exact
//! clauses (zero factor, x*(+-1), x*2^k, zero numerator, x/(+-1), x/2^k) are proved directly.
//! Natively every obligation is judged by the stated bound itself in `Fix`... for products the
//! exact product is formed by shift-and-add of the 53-bit significand.
use super::contracts::*;
use super::spec::fix::{fx, Fix};
use super::spec::*;
use crate::arithmetic::fast_two_sum;
use crate::TwoFloat;

/// the fused multiply-add the algorithms are stated over (IEEE, single rounding).  The miters
/// below do NOT stub the crate's private `fma`: both sides call the same primitive
/// (`f64::mul_add`; in the no-std build `libm::fma` is replaced by it, its assumed contract), so
/// an edit of either cfg-selected `fma` definition makes the sides differ whatever the model of
/// the primitive is.
#[inline]
pub fn fma_ieee(x: f64, y: f64, z: f64) -> f64 { f64::mul_add(x, y, z) }

pub fn alg9(xh: f64, xl: f64, y: f64) -> TwoFloat {
    let c = TwoFloat::new_mul(xh, y);
    let cl3 = fma_ieee(xl, y, c.lo);
    fast_two_sum(c.hi, cl3)
}
pub fn alg12(xh: f64, xl: f64, yh: f64, yl: f64) -> TwoFloat {
    let c = TwoFloat::new_mul(xh, yh);
    let tl0 = xl * yl;
    let tl1 = fma_ieee(xh, yl, tl0);
    let cl2 = fma_ieee(xl, yh, tl1);
    let cl3 = c.lo + cl2;
    fast_two_sum(c.hi, cl3)
}
pub fn alg15(xh: f64, xl: f64, y: f64) -> TwoFloat {
    let th = xh / y;
    let p = TwoFloat::new_mul(th, y);
    let dh = xh - p.hi;
    let dt = dh - p.lo;
    let d = dt + xl;
    let tl = d / y;
    fast_two_sum(th, tl)
}

/// exact product of a Fix value (non-negative or negative) with a finite f64 (shift-and-add over the significand)
#[cfg(not(kani))]
pub fn fix_mul_f64(v: Fix, y: f64) -> Fix {
    let (n, m, e) = fld(y);
    // y = +-m * 2^(e-1075); accumulate v*m then scale: to stay inside Fix we scale v down first when e < 1075
    let mut acc = Fix::zero();
    let mut i = 0;
    while i < 53 { if (m >> i) & 1 != 0 { acc = acc.add(v.shl(i)); } i += 1; }
    let _ = e;
    if n { acc.neg() } else { acc }
}

/// |r - x*y| <= num * 2^-106 * |x*y| judged exactly: scaled by 2^(1075-e_y) on both sides (native only)
#[cfg(not(kani))]
pub fn mul_bound_ok(r: &TwoFloat, x: &TwoFloat, yh: f64, yl: f64, num: u64) -> bool {
    if !(r.hi.is_finite() && r.lo.is_finite()) { return false; }
    // exact product P = (xh + xl) * (yh + yl); all in units where y's words are integers: scale by 2^(1075 - e)
    // with e the smaller effective exponent of yh, yl (non-zero ones)
    let eh = if yh == 0.0 { i32::MAX } else { fld(yh).2 };
    let el = if yl == 0.0 { i32::MAX } else { fld(yl).2 };
    let e = if eh < el { eh } else { el };
    if e == i32::MAX { return r.hi == 0.0 && r.lo == 0.0; }
    let vx = val(x);
    let term = |y: f64| -> Fix {
        if y == 0.0 { return Fix::zero(); }
        let (n, m, ey) = fld(y);
        let mut acc = Fix::zero();
        let mut i = 0;
        while i < 53 { if (m >> i) & 1 != 0 { acc = acc.add(vx.shl(i + (ey - e) as usize)); } i += 1; }
        if n { acc.neg() } else { acc }
    };
    // P * 2^(1075-e)
    let p = term(yh).add(term(yl));
    // r * 2^(1075-e): shifting by (1075 - e) may be negative; compare instead r * 2^k vs P where both scaled by 2^s
    let s = 1075 - e; // P = true_product * 2^s
    let rv = val(r);
    let (lhs, rhs) = if s >= 0 { (rv.shl(s as usize), p) } else { (rv, p.shl((-s) as usize)) };
    Fix::rel_le(lhs.sub(rhs), rhs, num, 106)
}

#[derive(Clone, Copy, PartialEq)]
pub enum F { Op, Assign }

// ---- witness search / bounded stand-in for the product bounds: domain B(12) (12-bit significands, high words
// in [2^-30, 2^30], low words 0 or >= 2^-90): every partial product is then exact in f64 and the exact product
// is their sum in a 512-bit window with unit 2^-260
use super::c03::{bhi, short_k, BK};
use super::spec::win::Y;
pub const ANCH_M: i32 = 1075 - 260;
pub fn blo_m(x: f64) -> bool { short_k(x, BK) && (x == 0.0 || x.abs() >= 8.077935669463161e-28) }
pub fn mul_bound_win(r: &TwoFloat, parts: [f64; 4], num: u64) -> bool {
    let mut e = Y::zero();
    let mut i = 0;
    while i < 4 { match Y::at(parts[i], ANCH_M, 330) { Some(v) => { e = e.add(v); } None => return false } i += 1; }
    match (Y::at(r.hi, ANCH_M, 330), Y::at(r.lo, ANCH_M, 330)) {
        (Some(zh), Some(zl)) => zh.add(zl).sub(e).abs().shl(106).le(e.abs().mul_small(num)),
        _ => false,
    }
}
fn bound_mul_f64_case(f64_left: bool, form: F) {
    let x = any_valid(); let y = any_f64!();
    vassume!(bhi(x.hi) && blo_m(x.lo) && bhi(y));
    let r = match (f64_left, form) {
        (false, F::Op) => &x * &y,
        (true, _) => &y * &x,
        (false, F::Assign) => { let mut t = x; t *= &y; t }
    };
    #[cfg(kani)]
    { vassert!(valid(r.hi, r.lo) && mul_bound_win(&r, [x.hi * y, x.lo * y, 0.0, 0.0], 2), "TwoFloat * f64 valid and within 2 * 2^-106 of the exact product"); }
    #[cfg(not(kani))]
    { vassert!(valid(r.hi, r.lo) && mul_bound_ok(&r, &x, y, 0.0, 2), "TwoFloat * f64 valid and within 2 * 2^-106 of the exact product"); }
    vcover!(x.lo != 0.0 && r.lo != 0.0, "non-trivial operands reachable");
}
fn bound_mul_tf_case(form: F) {
    let x = any_valid(); let y = any_valid();
    vassume!(bhi(x.hi) && blo_m(x.lo) && bhi(y.hi) && blo_m(y.lo));
    let r = match form { F::Op => &x * &y, F::Assign => { let mut t = x; t *= &y; t } };
    #[cfg(kani)]
    { vassert!(valid(r.hi, r.lo) && mul_bound_win(&r, [x.hi * y.hi, x.hi * y.lo, x.lo * y.hi, x.lo * y.lo], 5), "TwoFloat * TwoFloat valid and within 5 * 2^-106 of the exact product"); }
    #[cfg(not(kani))]
    { vassert!(valid(r.hi, r.lo) && mul_bound_ok(&r, &x, y.hi, y.lo, 5), "TwoFloat * TwoFloat valid and within 5 * 2^-106 of the exact product"); }
    vcover!(x.lo != 0.0 && y.lo != 0.0 && r.lo != 0.0, "non-trivial operands reachable");
}

pub fn mul_f64_case(f64_left: bool, form: F) {
    let x = any_tf(); let y = any_f64!();
    #[cfg(not(kani))]
    { vassume!(valid(x.hi, x.lo) && in450(x.hi) && in450(y)); }
    let r = match (f64_left, form) {
        (false, F::Op) => &x * &y,
        (true, _) => &y * &x,
        (false, F::Assign) => { let mut t = x; t *= &y; t }
    };
    #[cfg(kani)]
    { vassert!(same_tf(&r, &alg9(x.hi, x.lo, y)), "operator body is bit-identical to Algorithm 9 (DWTimesFP3)"); }
    #[cfg(not(kani))]
    { vassert!(mul_bound_ok(&r, &x, y, 0.0, 2), "TwoFloat * f64 within 2 * 2^-106 of the exact product"); }
}
pub fn mul_tf_case(form: F) {
    let x = any_tf(); let y = any_tf();
    #[cfg(not(kani))]
    { vassume!(valid(x.hi, x.lo) && valid(y.hi, y.lo) && in450(x.hi) && in450(y.hi)); }
    let r = match form { F::Op => &x * &y, F::Assign => { let mut t = x; t *= &y; t } };
    #[cfg(kani)]
    { vassert!(same_tf(&r, &alg12(x.hi, x.lo, y.hi, y.lo)), "operator body is bit-identical to Algorithm 12 (DWTimesDW3)"); }
    #[cfg(not(kani))]
    { vassert!(mul_bound_ok(&r, &x, y.hi, y.lo, 5), "TwoFloat * TwoFloat within 5 * 2^-106 of the exact product"); }
}
pub fn div_f64_case(form: F) { div_f64_case_b(form, false) }
/// `bounded`: witness-search variant of the same miter on the domain B(12) (kissat can then produce a model)
pub fn div_f64_case_b(form: F, bounded: bool) {
    let x = any_tf(); let y = any_f64!();
    #[cfg(kani)]
    { if bounded { vassume!(valid(x.hi, x.lo) && bhi(x.hi) && blo_m(x.lo) && bhi(y)); } }
    #[cfg(not(kani))]
    { vassume!(valid(x.hi, x.lo) && in450(x.hi) && x.hi != 0.0 && in450(y) && y != 0.0); }
    let r = match form { F::Op => &x / &y, F::Assign => { let mut t = x; t /= &y; t } };
    #[cfg(kani)]
    { vassert!(same_tf(&r, &alg15(x.hi, x.lo, y)), "operator body is bit-identical to Algorithm 15 (DWDivFP3)"); }
    #[cfg(not(kani))]
    {
        // |r - x/y| <= 3 * 2^-106 |x/y|  <=>  |r*y - x| <= 3 * 2^-106 |x|
        let ry = { let mut t = Fix::zero(); let (n, m, e) = fld(y); let rv = val(&r); let mut i = 0; while i < 53 { if (m >> i) & 1 != 0 { t = t.add(rv.shl(i)); } i += 1; } let _ = e; if n { t.neg() } else { t } };
        let (_, _, e) = fld(y);
        let s = 1075 - e; // ry = r*y * 2^s
        let xv = val(&x);
        let (lhs, rhs) = if s >= 0 { (ry, xv.shl(s as usize)) } else { (ry.shl((-s) as usize), xv) };
        vassert!(Fix::rel_le(lhs.sub(rhs), rhs, 3, 106), "TwoFloat / f64 within 3 * 2^-106 of the exact quotient");
    }
}

harnesses! {
    #[kani::solver(cvc5)] fn alg9_mul_tf_f64() { mul_f64_case(false, F::Op) }
    #[kani::solver(cvc5)] fn alg9_mul_f64_tf() { mul_f64_case(true, F::Op) }
    #[kani::solver(cvc5)] fn alg9_mul_assign_f64() { mul_f64_case(false, F::Assign) }
    #[kani::solver(cvc5)] fn alg12_mul_tf_tf() { mul_tf_case(F::Op) }
    #[kani::solver(cvc5)] fn alg12_mul_assign_tf() { mul_tf_case(F::Assign) }
    // witness search / bounded stand-ins B(12): the product bound itself on the real operators
    #[kani::solver(kissat)] #[kani::unwind(70)] fn bound_mul_tf_f64() { bound_mul_f64_case(false, F::Op) }
    #[kani::solver(kissat)] #[kani::unwind(70)] fn bound_mul_f64_tf() { bound_mul_f64_case(true, F::Op) }
    #[kani::solver(kissat)] #[kani::unwind(70)] fn bound_mul_assign_f64() { bound_mul_f64_case(false, F::Assign) }
    #[kani::solver(kissat)] #[kani::unwind(70)] fn bound_mul_tf_tf() { bound_mul_tf_case(F::Op) }
    #[kani::solver(kissat)] #[kani::unwind(70)] fn bound_mul_assign_tf() { bound_mul_tf_case(F::Assign) }
    #[kani::solver(kissat)] fn witness_div_tf_f64() { div_f64_case_b(F::Op, true) }
    #[kani::solver(kissat)] fn witness_div_assign_f64() { div_f64_case_b(F::Assign, true) }
    #[kani::solver(cvc5)] fn alg15_div_tf_f64() { div_f64_case(F::Op) }
    #[kani::solver(cvc5)] fn alg15_div_assign_f64() { div_f64_case(F::Assign) }
    /// new_div(a, b) is Algorithm 15 with a zero low word
    #[kani::solver(cvc5)]
    fn alg15_new_div() {
        let a = any_f64!(); let b = any_f64!();
        let r = TwoFloat::new_div(a, b);
        #[cfg(kani)]
        {
            // Algorithm 15 specialised to a zero low word (the addition `dt + 0` is dropped: it is exact)
            let th = a / b;
            let p = TwoFloat::new_mul(th, b);
            let d = (a - p.hi) - p.lo;
            let e = fast_two_sum(th, d / b);
            vassert!(same_tf(&r, &e), "new_div(a, b) is bit-identical to Algorithm 15 with a zero low word");
        }
        #[cfg(not(kani))]
        {
            vassume!(a.abs() >= 3.2e-145 && a.abs() <= 3.1e144 && b.abs() >= 3.2e-145 && b.abs() <= 3.1e144);
            let (_, m, e) = fld(b); let rv = val(&r);
            let mut t = Fix::zero(); let mut i = 0; while i < 53 { if (m >> i) & 1 != 0 { t = t.add(rv.shl(i)); } i += 1; }
            if b < 0.0 { t = t.neg(); }
            let s = 1075 - e; let xv = fx(a);
            let (lhs, rhs) = if s >= 0 { (t, xv.shl(s as usize)) } else { (t.shl((-s) as usize), xv) };
            vassert!(Fix::rel_le(lhs.sub(rhs), rhs, 3, 106), "new_div within 3 * 2^-106 of the exact quotient");
        }
    }

    /// a zero factor gives an exactly zero product (all five bodies; two obligations)
    #[kani::solver(kissat)] #[kani::stub(crate::arithmetic::fma, fma_fixed)] #[kani::stub(crate::arithmetic::fast_two_sum, s_fts)]
    fn mul_zero_factor_f64() {
        let x = any_valid(); let f = any_f64!();
        vassume!(in450(x.hi) && in450(f));
        vassume!(x.hi == 0.0 || f == 0.0);
        let z = |r: TwoFloat| r.hi == 0.0 && r.lo == 0.0;
        let mut u = x; u *= f;
        vassert!(z(x * f) && z(f * x) && z(u), "zero factor gives a zero product (TwoFloat * f64, f64 * TwoFloat, *=)");
        vcover!(x.hi != 0.0, "non-zero times zero reachable");
    }
    #[kani::solver(kissat)] #[kani::stub(crate::arithmetic::fma, fma_fixed)] #[kani::stub(crate::arithmetic::fast_two_sum, s_fts)]
    fn mul_zero_factor_tf() {
        let x = any_valid(); let y = any_valid();
        vassume!(in450(x.hi) && in450(y.hi));
        vassume!(x.hi == 0.0 || y.hi == 0.0);
        let z = |r: TwoFloat| r.hi == 0.0 && r.lo == 0.0;
        let mut t = x; t *= y;
        vassert!(z(x * y) && z(t), "zero factor gives a zero product (TwoFloat * TwoFloat, *=)");
        vcover!(x.hi == 0.0 && y.hi != 0.0, "zero times non-zero reachable");
    }
    /// multiplying by +-1 is exact (value equality; the sign of a zero low word may differ)
    #[kani::solver(kissat)] #[kani::stub(crate::arithmetic::fma, fma_fixed)]
    fn mul_by_one_f64() {
        let x = any_valid();
        vassume!(in450(x.hi));
        let (a, b) = (x * 1.0, 1.0 * x);
        vassert!(a.hi == x.hi && a.lo == x.lo && b.hi == x.hi && b.lo == x.lo, "x * 1.0 == 1.0 * x == x");
        let mut t = x; t *= 1.0;
        vassert!(t.hi == x.hi && t.lo == x.lo, "x *= 1.0 keeps x");
        vcover!(x.lo != 0.0, "non-zero low word reachable");
    }
    #[kani::solver(kissat)] #[kani::stub(crate::arithmetic::fma, fma_fixed)]
    fn mul_by_minus_one_f64() {
        let x = any_valid();
        vassume!(in450(x.hi));
        let (a, b) = (x * -1.0, -1.0 * x);
        vassert!(a.hi == -x.hi && a.lo == -x.lo && b.hi == -x.hi && b.lo == -x.lo, "x * -1.0 == -1.0 * x == -x");
        vcover!(x.lo != 0.0, "non-zero low word reachable");
    }
    #[kani::solver(kissat)] #[kani::stub(crate::arithmetic::fma, fma_fixed)]
    fn mul_by_one_tf() {
        let x = any_valid();
        vassume!(in450(x.hi));
        let one = TwoFloat::from(1.0);
        let a = x * one;
        vassert!(a.hi == x.hi && a.lo == x.lo, "x * TwoFloat(1) == x");
        let mut u = x; u *= one;
        vassert!(u.hi == x.hi && u.lo == x.lo, "x *= TwoFloat(1) keeps x");
        vcover!(x.lo != 0.0, "non-zero low word reachable");
    }
    #[kani::solver(kissat)] #[kani::stub(crate::arithmetic::fma, fma_fixed)]
    fn mul_one_tf_by_x() {
        let x = any_valid();
        vassume!(in450(x.hi));
        let one = TwoFloat::from(1.0);
        let b = one * x;
        vassert!(b.hi == x.hi && b.lo == x.lo, "TwoFloat(1) * x == x");
        vcover!(x.lo != 0.0, "non-zero low word reachable");
    }
    #[kani::solver(kissat)] #[kani::stub(crate::arithmetic::fma, fma_fixed)]
    fn mul_by_minus_one_tf() {
        let x = any_valid();
        vassume!(in450(x.hi));
        let mone = TwoFloat::from(-1.0);
        let a = x * mone;
        vassert!(a.hi == -x.hi && a.lo == -x.lo, "x * TwoFloat(-1) == -x");
        vcover!(x.lo != 0.0, "non-zero low word reachable");
    }
    /// multiplying by a power of two is exact whenever the scaled low word does not underflow
    #[kani::solver(kissat)] #[kani::stub(crate::arithmetic::fma, fma_fixed)]
    fn mul_pow2_exact() {
        let x = any_valid();
        vassume!(in450(x.hi));
        let k = any_i32!(); vassume!(k >= -450 && k <= 450);
        let p = f64::from_bits(((k + 1023) as u64) << 52);
        vassume!(x.lo == 0.0 || (x.lo * p).abs() >= f64::MIN_POSITIVE);
        let r = x * p; let q = p * x; let s = x * TwoFloat::from(p);
        vassert!(r.hi == x.hi * p && r.lo == x.lo * p, "x * 2^k scales both words exactly");
        vassert!(q.hi == r.hi && q.lo == r.lo && s.hi == r.hi && s.lo == r.lo, "2^k * x and x * TwoFloat(2^k) likewise");
        vcover!(x.lo != 0.0 && k < -300, "large negative exponent reachable");
    }
}

/// model agreement: the (corrected) fma model equals the hardware fma on 240 seeded triples
/// (generic, zero factor, tiny x huge, subnormal results, exact cancellation)
pub mod agreement {
    use super::super::contracts::fma_fixed;
    use super::super::fma_data::T;
    harnesses! {
        #[kani::solver(kissat)] #[kani::unwind(245)]
        fn fma_model_agreement() {
            let mut i = 0;
            let mut bad = 0u32;
            while i < T.len() {
                let (x, y, z, r) = T[i];
                let a = fma_fixed(f64::from_bits(x), f64::from_bits(y), f64::from_bits(z));
                if !(a.to_bits() == r || (a.is_nan() && f64::from_bits(r).is_nan())) { bad += 1; }
                i += 1;
            }
            vassert!(bad == 0, "corrected fma model agrees with the hardware on every seeded triple");
            vassert!(T.len() == 240, "table complete");
        }
    }
}
