//! C13 — roots and integer powers: totality, exact points, domain rules, powi structure.
use super::contracts::*;
use super::spec::*;
use crate::TwoFloat;

pub mod solver {
    use super::*;
    hv_harnesses! {
        /// powi never panics for any i32 exponent (operators value-independent; integer overflow checks on;
        /// 32-fold unwinding with unwinding assertion = complete for i32)
        #[kani::solver(kissat)] #[kani::unwind(34)] #[kani::stub(TwoFloat::recip, h_unary)]
        #[kani::stub(<TwoFloat as core::ops::MulAssign<TwoFloat>>::mul_assign, h_av)]
        fn powi_no_panic() {
            let x = any_tf(); vassume!(ival(&x));
            let n = any_i32!();
            let r = x.powi(n);
            let _ = r;
            vcover!(n == i32::MIN, "i32::MIN reachable");
            vcover!(n == i32::MAX, "i32::MAX reachable");
        }
        /// powi(x, 0) == 1 (NaN for 0^0), powi(x, 1) == x
        #[kani::solver(kissat)] #[kani::unwind(34)] #[kani::stub(TwoFloat::recip, h_unary)]
        fn powi_zero_one() {
            let x = any_valid();
            let p0 = x.powi(0); let p1 = x.powi(1);
            if x.hi == 0.0 { vassert!(p0.hi.is_nan(), "0^0 is NaN"); } else { vassert!(p0.hi == 1.0 && p0.lo == 0.0, "x^0 == 1"); }
            vassert!(same_tf(&p1, &x), "x^1 == x bit for bit");
        }
        /// sqrt of a negative value is invalid; sqrt(+-0) == 0
        #[kani::solver(kissat)] #[kani::unwind(8)]
        fn sqrt_domain() {
            let x = any_valid();
            let r = x.sqrt();
            if x.hi < 0.0 { vassert!(!valid(r.hi, r.lo), "sqrt of a negative value is invalid"); }
            if x.hi == 0.0 { vassert!(r.hi == 0.0 && r.lo == 0.0, "sqrt(0) == 0"); }
            vcover!(x.hi < 0.0 && x.lo > 0.0, "negative value with positive low word reachable");
        }
        /// sqrt, cbrt, hypot never panic on valid arguments
        #[kani::solver(kissat)] #[kani::unwind(8)]
        fn roots_no_panic() {
            let x = any_valid(); let y = any_valid();
            let _ = (x.sqrt(), x.cbrt(), x.hypot(y));
            vcover!(x.hi > 0.0, "positive argument reachable");
        }
    }
}

/// bounded stand-in: powi(x, -n) is bit-identical to powi(x, n).recip() for a fixed exponent (real operators, cvc5:
/// with a constant n both sides unroll to the same straight-line computation)
fn powi_neg_case(n: i32) {
    let x = any_tf();
    vassert!(same_tf(&x.powi(-n), &x.powi(n).recip()), "powi(x, -n) == powi(x, n).recip() bit for bit");
}

harnesses! {
    #[kani::solver(cvc5)] #[kani::unwind(5)] fn powi_neg_is_recip_n2() { powi_neg_case(2) }
    #[kani::solver(cvc5)] #[kani::unwind(5)] fn powi_neg_is_recip_n3() { powi_neg_case(3) }
    #[kani::solver(cvc5)] #[kani::unwind(5)] fn powi_neg_is_recip_n6() { powi_neg_case(6) }

    /// exact points and the structure of powi on large exponents (ground, native)
    fn exact_points() {
        let z = TwoFloat::from(0.0); let nz = TwoFloat::from(-0.0);
        vassert!(z.sqrt().hi() == 0.0 && z.sqrt().lo() == 0.0 && nz.sqrt().hi() == 0.0, "sqrt(+-0) == 0");
        let c = z.cbrt();
        vassert!(c.hi() == 0.0 && c.lo() == 0.0, "cbrt(0) == 0");
        let cn = nz.cbrt();
        vassert!(cn.hi() == 0.0 && cn.lo() == 0.0, "cbrt(-0) == 0");
        vassert!(!TwoFloat::from(-4.0).sqrt().is_valid(), "sqrt(-4) is invalid");
        let xs = [1.0000000001, -1.0000000001, 0.999999, -3.0, 1.5];
        let ns = [2, 3, 7, 64, 1023, 65537, i32::MAX, i32::MAX - 1];
        let mut i = 0;
        while i < xs.len() {
            let x = TwoFloat::from(xs[i]);
            let mut j = 0;
            while j < ns.len() {
                let a = x.powi(-ns[j]); let b = x.powi(ns[j]).recip();
                vassert!(same_tf(&a, &b), "powi(x, -n) == powi(x, n).recip() bit for bit");
                if xs[i] < 0.0 { let p = x.powi(ns[j]); vassert!(!p.is_valid() || p.hi() == 0.0 || ((p.hi() < 0.0) == (ns[j] % 2 != 0)), "sign of powi for negative x"); }
                j += 1;
            }
            // i32::MIN = -2^31 is even: the result is positive (or zero / non-finite), and equals the reciprocal
            // of ((x^(2^30))^2) up to the rounding of one more squaring
            let m = x.powi(i32::MIN);
            vassert!(!m.is_valid() || m.hi() >= 0.0, "powi(x, i32::MIN) is non-negative (even exponent)");
            let h = x.powi(1 << 30);
            let want = (h * h).recip();
            vassert!(!m.is_valid() || !want.is_valid() || want.hi() == 0.0 || ((m - want) / want).abs().hi() < 1e-25, "powi(x, i32::MIN) == 1 / (x^(2^30))^2 to 1e-25");
            i += 1;
        }
        let neg1 = TwoFloat::from(-1.0);
        vassert!(neg1.powi(i32::MIN).hi() == 1.0 && neg1.powi(i32::MAX).hi() == -1.0 && neg1.powi(-3).hi() == -1.0 && neg1.powi(-2).hi() == 1.0, "(-1)^n has the sign of the parity of n at the extremes");
        vassert!(TwoFloat::from(2.0).powi(10).hi() == 1024.0 && TwoFloat::from(2.0).powi(-2).hi() == 0.25, "2^10, 2^-2");
    }
}
