//! C02 — two-word constructors are error-free transformations (leaf contracts).
//! The leaves are proved against their real bodies with every float operation
//! bit-blasted, case-split on the difference of the operands' exponent fields
//! (each case one obligation; `*_cases_cover` shows the cases exhaust the
//! precondition).  Generated part: see the bottom of this file.
use super::contracts::*;
use super::spec::*;
use crate::arithmetic::fast_two_sum;
use crate::TwoFloat;

pub const FAR: i32 = 1000;
pub const ZERO: i32 = 2000;

/// exactness clause with the gap known: the gap-anchored window inside the solver, Fix natively
#[cfg(kani)]
fn exact_d(hi: f64, lo: f64, a: f64, b: f64, d: i32) -> bool {
    if d == FAR { hi == a && lo == b } else if d == -FAR { hi == b && lo == a }
    else if d == ZERO { exact_sum2_sgap(hi, lo, a, b) }
    else if d >= 0 { exact_sum2_gap(hi, lo, a, b, d) } else { exact_sum2_gap(hi, lo, b, a, -d) }
}
#[cfg(not(kani))]
fn exact_d(hi: f64, lo: f64, a: f64, b: f64, _d: i32) -> bool { exact2_def(hi, lo, a, b) }

fn assume_case(a: f64, b: f64, d: i32) {
    let g = eexp(a) - eexp(b);
    if d == ZERO { vassume!(a == 0.0 || b == 0.0) }
    else if d == FAR { vassume!(a != 0.0 && b != 0.0 && g > 56) }
    else if d == -FAR { vassume!(a != 0.0 && b != 0.0 && g < -56) }
    else { vassume!(a != 0.0 && b != 0.0 && g == d) }
}

/// fast_two_sum against its contract, one exponent-gap case
fn fts_case(d: i32) {
    let a = any_f64!(); let b = any_f64!();
    vassume!(pre_fts(a, b));
    assume_case(a, b, d);
    let r = fast_two_sum(a, b);
    vassert!(r.hi == a + b, "fast_two_sum: hi == RN(a+b)");
    if r.hi.is_finite() {
        vassert!(valid(r.hi, r.lo), "fast_two_sum: result normalised");
        vassert!(exact_d(r.hi, r.lo, a, b, d), "fast_two_sum: hi + lo == a + b exactly");
    }
    vcover!(r.hi.is_finite() && (d == ZERO || r.lo != 0.0), "finite result (with non-zero low word unless an operand is zero) reachable");
}

/// new_add / new_sub against their contracts, one exponent-gap case
fn add_case(sub: bool, d: i32) {
    let a = any_f64!(); let b = any_f64!();
    vassume!(pre_new_add(a, b));
    assume_case(a, b, d);
    let r = if sub { TwoFloat::new_sub(a, b) } else { TwoFloat::new_add(a, b) };
    let bb = if sub { -b } else { b };
    vassert!(r.hi == a + bb, "new_add/new_sub: hi == RN(a +- b)");
    vassert!(valid(r.hi, r.lo), "new_add/new_sub: result normalised");
    vassert!(exact_d(r.hi, r.lo, a, bb, d), "new_add/new_sub: hi + lo == a +- b exactly");
    vcover!(d == ZERO || r.lo != 0.0, "result (with non-zero low word unless an operand is zero) reachable");
}

/// 2Prod exactness with `z` trailing zero significand bits in both operands
fn new_mul_exact_case(z: u32) {
    let a = any_f64!(); let b = any_f64!();
    let (ea, eb) = (eexp(a), eexp(b));
    let full = z == 99;
    let z = if full { 0 } else { z };
    if full { vassume!(a.is_finite() && b.is_finite() && a != 0.0 && b != 0.0); }
    else { vassume!(a.is_finite() && b.is_finite() && a != 0.0 && b != 0.0 && ea >= 923 && ea <= 1123 && eb >= 923 && eb <= 1123); }
    vassume!(a.to_bits() & ((1u64 << z) - 1) == 0 && b.to_bits() & ((1u64 << z) - 1) == 0);
    let r = TwoFloat::new_mul(a, b);
    if full { vassume!(mul_dom(r.hi) && r.hi != 0.0); }
    #[cfg(kani)]
    {
        let (na, ma, _) = fld(a); let (nb, mb, _) = fld(b);
        let p = ((ma >> z) as i128) * ((mb >> z) as i128);
        let p = if na != nb { -p } else { p };
        let anchor = ea + eb - 1075 + 2 * z as i32;
        match (at_anchor(r.hi, anchor, 70), at_anchor(r.lo, anchor, 70)) {
            (Some(h), Some(l)) => { vassert!(h + l == p, "new_mul: hi + lo == a * b exactly"); }
            _ => { vassert!(false, "new_mul: words representable at the product's unit"); }
        }
    }
    #[cfg(not(kani))]
    {
        let one = TwoFloat { hi: a, lo: 0.0 };
        vassert!(super::c04::mul_bound_ok(&r, &one, b, 0.0, 0), "new_mul: hi + lo == a * b exactly");
    }
    vcover!(r.lo != 0.0, "inexact product reachable");
}

harnesses! {
    /// the fast_two_sum cases exhaust its precondition
    #[kani::solver(kissat)]
    fn fts_cases_cover() {
        let a = any_f64!(); let b = any_f64!();
        vassume!(pre_fts(a, b));
        let g = eexp(a) - eexp(b);
        vassert!(a == 0.0 || b == 0.0 || (g >= 0 && g <= 56) || g > 56, "zero / gap 0..56 / far cover pre_fts");
    }
    /// the new_add/new_sub cases exhaust their precondition
    #[kani::solver(kissat)]
    fn add_cases_cover() {
        let a = any_f64!(); let b = any_f64!();
        vassume!(pre_new_add(a, b));
        let g = eexp(a) - eexp(b);
        vassert!(a == 0.0 || b == 0.0 || (g >= -56 && g <= 56) || g > 56 || g < -56, "zero / gap -56..56 / far cover pre_new_add");
    }
    /// on the case domains the case predicates are exactly the contract's exactness predicate
    #[kani::solver(kissat)]
    fn exact_cases_are_contract() {
        let a = any_f64!(); let b = any_f64!(); let hi = any_f64!(); let lo = any_f64!();
        vassume!(a.is_finite() && b.is_finite() && hi.is_finite() && lo.is_finite() && a != 0.0 && b != 0.0);
        let g = eexp(a) - eexp(b);
        let e = exact_sum2_sgap(hi, lo, a, b);
        if g > 56 { vassert!(e == (hi == a && lo == b), "far+"); }
        else if g < -56 { vassert!(e == (hi == b && lo == a), "far-"); }
        else if g >= 0 { vassert!(e == exact_sum2_gap(hi, lo, a, b, g), "near+"); }
        else { vassert!(e == exact_sum2_gap(hi, lo, b, a, -g), "near-"); }
    }
    /// canary (vacuity guard): a deliberately false postcondition - "new_add always returns a zero low word" -
    /// must be REFUTED on every run
    #[kani::solver(kissat)]
    fn canary_new_add_lo_zero() {
        let a = any_f64!(); let b = any_f64!();
        vassume!(pre_new_add(a, b));
        assume_case(a, b, 3);
        let r = TwoFloat::new_add(a, b);
        vassert!(r.lo == 0.0, "CANARY (false on purpose): new_add returns a zero low word");
    }
    /// from_f64 / From<f64> represent their argument exactly with a zero low word
    #[kani::solver(kissat)]
    fn from_f64_exact() {
        let x = any_f64!();
        let r = TwoFloat::from_f64(x);
        let q = TwoFloat::from(x);
        vassert!(same(r.hi, x) && r.lo == 0.0 && r.lo.is_sign_positive(), "from_f64(x) == (x, +0)");
        vassert!(same(q.hi, x) && q.lo == 0.0 && q.lo.is_sign_positive(), "From<f64>(x) == (x, +0)");
    }
    /// new_mul: hi is the rounded product, for all finite pairs
    #[kani::solver(cvc5)] #[kani::stub(crate::arithmetic::fma, fma_fixed)]
    fn new_mul_hi() {
        let a = any_f64!(); let b = any_f64!();
        vassume!(pre_new_mul(a, b));
        let r = TwoFloat::new_mul(a, b);
        vassert!(same(r.hi, a * b), "new_mul: hi == RN(a*b)");
    }
    /// new_mul is Algorithm 3 (2Prod): (RN(ab), fma(a, b, -RN(ab))) bit for bit, for all 2^128 pairs - with the classical
    /// 2Prod theorem (assumed) this is the exactness clause hi + lo == ab; the crate's `fma` is not stubbed (both sides
    /// call the same primitive)
    #[kani::solver(cvc5)]
    fn new_mul_is_two_prod() {
        let a = any_f64!(); let b = any_f64!();
        let r = TwoFloat::new_mul(a, b);
        let p = a * b;
        #[cfg(kani)]
        { vassert!(same(r.hi, p) && same(r.lo, f64::mul_add(a, b, -p)), "new_mul(a,b) == (RN(ab), fma(a, b, -RN(ab)))"); }
        #[cfg(not(kani))]
        {
            // natively: the exactness clause itself, for products in the stated domain (exact product by shift-and-add in Fix)
            vassume!(pre_new_mul(a, b) && mul_dom(p) && p != 0.0);
            let one = TwoFloat { hi: a, lo: 0.0 };
            vassert!(r.hi == p && super::c04::mul_bound_ok(&r, &one, b, 0.0, 0), "new_mul: hi == RN(ab) and hi + lo == ab exactly");
        }
    }
    // 2Prod: hi + lo == a * b exactly, operands within 100 binades of 1, significands of 53 - z bits
    // (z = 0: full width).  The exact product is the integer product of the significands.
    #[kani::solver(kissat)] #[kani::stub(crate::arithmetic::fma, fma_fixed)] fn new_mul_exact_b31() { new_mul_exact_case(22) }
    #[kani::solver(kissat)] #[kani::stub(crate::arithmetic::fma, fma_fixed)] fn new_mul_exact_b42() { new_mul_exact_case(11) }
    #[kani::solver(kissat)] #[kani::stub(crate::arithmetic::fma, fma_fixed)] fn new_mul_exact_b53() { new_mul_exact_case(0) }
    /// 2Prod on the whole domain of C02: every finite pair (subnormal operands included) whose rounded product is
    /// non-zero and in [2^-960, 2^1023)
    #[kani::solver(kissat)] #[kani::stub(crate::arithmetic::fma, fma_fixed)] fn new_mul_exact_full() { new_mul_exact_case(99) }
    /// new_mul: result normalised when the product is 0 or in [2^-960, 2^1023)
    #[kani::solver(kissat)] #[kani::stub(crate::arithmetic::fma, fma_fixed)]
    fn new_mul_valid() {
        let a = any_f64!(); let b = any_f64!();
        vassume!(pre_new_mul(a, b));
        let r = TwoFloat::new_mul(a, b);
        vassume!(mul_dom(r.hi));
        vassert!(valid(r.hi, r.lo), "new_mul: result normalised in the stated domain");
        vcover!(r.lo != 0.0, "non-zero low word reachable");
    }
    // ---- generated: one obligation per exponent-gap case
    #[kani::solver(kissat)] #[kani::unwind(6)] fn fts_gap_p0() { fts_case(0) }
    #[kani::solver(kissat)] #[kani::unwind(6)] fn fts_gap_p1() { fts_case(1) }
    #[kani::solver(kissat)] #[kani::unwind(6)] fn fts_gap_p2() { fts_case(2) }
    #[kani::solver(kissat)] #[kani::unwind(6)] fn fts_gap_p3() { fts_case(3) }
    #[kani::solver(kissat)] #[kani::unwind(6)] fn fts_gap_p4() { fts_case(4) }
    #[kani::solver(kissat)] #[kani::unwind(6)] fn fts_gap_p5() { fts_case(5) }
    #[kani::solver(kissat)] #[kani::unwind(6)] fn fts_gap_p6() { fts_case(6) }
    #[kani::solver(kissat)] #[kani::unwind(6)] fn fts_gap_p7() { fts_case(7) }
    #[kani::solver(kissat)] #[kani::unwind(6)] fn fts_gap_p8() { fts_case(8) }
    #[kani::solver(kissat)] #[kani::unwind(6)] fn fts_gap_p9() { fts_case(9) }
    #[kani::solver(kissat)] #[kani::unwind(6)] fn fts_gap_p10() { fts_case(10) }
    #[kani::solver(kissat)] #[kani::unwind(6)] fn fts_gap_p11() { fts_case(11) }
    #[kani::solver(kissat)] #[kani::unwind(6)] fn fts_gap_p12() { fts_case(12) }
    #[kani::solver(kissat)] #[kani::unwind(6)] fn fts_gap_p13() { fts_case(13) }
    #[kani::solver(kissat)] #[kani::unwind(6)] fn fts_gap_p14() { fts_case(14) }
    #[kani::solver(kissat)] #[kani::unwind(6)] fn fts_gap_p15() { fts_case(15) }
    #[kani::solver(kissat)] #[kani::unwind(6)] fn fts_gap_p16() { fts_case(16) }
    #[kani::solver(kissat)] #[kani::unwind(6)] fn fts_gap_p17() { fts_case(17) }
    #[kani::solver(kissat)] #[kani::unwind(6)] fn fts_gap_p18() { fts_case(18) }
    #[kani::solver(kissat)] #[kani::unwind(6)] fn fts_gap_p19() { fts_case(19) }
    #[kani::solver(kissat)] #[kani::unwind(6)] fn fts_gap_p20() { fts_case(20) }
    #[kani::solver(kissat)] #[kani::unwind(6)] fn fts_gap_p21() { fts_case(21) }
    #[kani::solver(kissat)] #[kani::unwind(6)] fn fts_gap_p22() { fts_case(22) }
    #[kani::solver(kissat)] #[kani::unwind(6)] fn fts_gap_p23() { fts_case(23) }
    #[kani::solver(kissat)] #[kani::unwind(6)] fn fts_gap_p24() { fts_case(24) }
    #[kani::solver(kissat)] #[kani::unwind(6)] fn fts_gap_p25() { fts_case(25) }
    #[kani::solver(kissat)] #[kani::unwind(6)] fn fts_gap_p26() { fts_case(26) }
    #[kani::solver(kissat)] #[kani::unwind(6)] fn fts_gap_p27() { fts_case(27) }
    #[kani::solver(kissat)] #[kani::unwind(6)] fn fts_gap_p28() { fts_case(28) }
    #[kani::solver(kissat)] #[kani::unwind(6)] fn fts_gap_p29() { fts_case(29) }
    #[kani::solver(kissat)] #[kani::unwind(6)] fn fts_gap_p30() { fts_case(30) }
    #[kani::solver(kissat)] #[kani::unwind(6)] fn fts_gap_p31() { fts_case(31) }
    #[kani::solver(kissat)] #[kani::unwind(6)] fn fts_gap_p32() { fts_case(32) }
    #[kani::solver(kissat)] #[kani::unwind(6)] fn fts_gap_p33() { fts_case(33) }
    #[kani::solver(kissat)] #[kani::unwind(6)] fn fts_gap_p34() { fts_case(34) }
    #[kani::solver(kissat)] #[kani::unwind(6)] fn fts_gap_p35() { fts_case(35) }
    #[kani::solver(kissat)] #[kani::unwind(6)] fn fts_gap_p36() { fts_case(36) }
    #[kani::solver(kissat)] #[kani::unwind(6)] fn fts_gap_p37() { fts_case(37) }
    #[kani::solver(kissat)] #[kani::unwind(6)] fn fts_gap_p38() { fts_case(38) }
    #[kani::solver(kissat)] #[kani::unwind(6)] fn fts_gap_p39() { fts_case(39) }
    #[kani::solver(kissat)] #[kani::unwind(6)] fn fts_gap_p40() { fts_case(40) }
    #[kani::solver(kissat)] #[kani::unwind(6)] fn fts_gap_p41() { fts_case(41) }
    #[kani::solver(kissat)] #[kani::unwind(6)] fn fts_gap_p42() { fts_case(42) }
    #[kani::solver(kissat)] #[kani::unwind(6)] fn fts_gap_p43() { fts_case(43) }
    #[kani::solver(kissat)] #[kani::unwind(6)] fn fts_gap_p44() { fts_case(44) }
    #[kani::solver(kissat)] #[kani::unwind(6)] fn fts_gap_p45() { fts_case(45) }
    #[kani::solver(kissat)] #[kani::unwind(6)] fn fts_gap_p46() { fts_case(46) }
    #[kani::solver(kissat)] #[kani::unwind(6)] fn fts_gap_p47() { fts_case(47) }
    #[kani::solver(kissat)] #[kani::unwind(6)] fn fts_gap_p48() { fts_case(48) }
    #[kani::solver(kissat)] #[kani::unwind(6)] fn fts_gap_p49() { fts_case(49) }
    #[kani::solver(kissat)] #[kani::unwind(6)] fn fts_gap_p50() { fts_case(50) }
    #[kani::solver(kissat)] #[kani::unwind(6)] fn fts_gap_p51() { fts_case(51) }
    #[kani::solver(kissat)] #[kani::unwind(6)] fn fts_gap_p52() { fts_case(52) }
    #[kani::solver(kissat)] #[kani::unwind(6)] fn fts_gap_p53() { fts_case(53) }
    #[kani::solver(kissat)] #[kani::unwind(6)] fn fts_gap_p54() { fts_case(54) }
    #[kani::solver(kissat)] #[kani::unwind(6)] fn fts_gap_p55() { fts_case(55) }
    #[kani::solver(kissat)] #[kani::unwind(6)] fn fts_gap_p56() { fts_case(56) }
    #[kani::solver(kissat)] #[kani::unwind(6)] fn fts_far() { fts_case(FAR) }
    #[kani::solver(kissat)] #[kani::unwind(6)] fn fts_zero() { fts_case(ZERO) }
    #[kani::solver(kissat)] #[kani::unwind(6)] fn new_add_gap_m56() { add_case(false, -56) }
    #[kani::solver(kissat)] #[kani::unwind(6)] fn new_add_gap_m55() { add_case(false, -55) }
    #[kani::solver(kissat)] #[kani::unwind(6)] fn new_add_gap_m54() { add_case(false, -54) }
    #[kani::solver(kissat)] #[kani::unwind(6)] fn new_add_gap_m53() { add_case(false, -53) }
    #[kani::solver(kissat)] #[kani::unwind(6)] fn new_add_gap_m52() { add_case(false, -52) }
    #[kani::solver(kissat)] #[kani::unwind(6)] fn new_add_gap_m51() { add_case(false, -51) }
    #[kani::solver(kissat)] #[kani::unwind(6)] fn new_add_gap_m50() { add_case(false, -50) }
    #[kani::solver(kissat)] #[kani::unwind(6)] fn new_add_gap_m49() { add_case(false, -49) }
    #[kani::solver(kissat)] #[kani::unwind(6)] fn new_add_gap_m48() { add_case(false, -48) }
    #[kani::solver(kissat)] #[kani::unwind(6)] fn new_add_gap_m47() { add_case(false, -47) }
    #[kani::solver(kissat)] #[kani::unwind(6)] fn new_add_gap_m46() { add_case(false, -46) }
    #[kani::solver(kissat)] #[kani::unwind(6)] fn new_add_gap_m45() { add_case(false, -45) }
    #[kani::solver(kissat)] #[kani::unwind(6)] fn new_add_gap_m44() { add_case(false, -44) }
    #[kani::solver(kissat)] #[kani::unwind(6)] fn new_add_gap_m43() { add_case(false, -43) }
    #[kani::solver(kissat)] #[kani::unwind(6)] fn new_add_gap_m42() { add_case(false, -42) }
    #[kani::solver(kissat)] #[kani::unwind(6)] fn new_add_gap_m41() { add_case(false, -41) }
    #[kani::solver(kissat)] #[kani::unwind(6)] fn new_add_gap_m40() { add_case(false, -40) }
    #[kani::solver(kissat)] #[kani::unwind(6)] fn new_add_gap_m39() { add_case(false, -39) }
    #[kani::solver(kissat)] #[kani::unwind(6)] fn new_add_gap_m38() { add_case(false, -38) }
    #[kani::solver(kissat)] #[kani::unwind(6)] fn new_add_gap_m37() { add_case(false, -37) }
    #[kani::solver(kissat)] #[kani::unwind(6)] fn new_add_gap_m36() { add_case(false, -36) }
    #[kani::solver(kissat)] #[kani::unwind(6)] fn new_add_gap_m35() { add_case(false, -35) }
    #[kani::solver(kissat)] #[kani::unwind(6)] fn new_add_gap_m34() { add_case(false, -34) }
    #[kani::solver(kissat)] #[kani::unwind(6)] fn new_add_gap_m33() { add_case(false, -33) }
    #[kani::solver(kissat)] #[kani::unwind(6)] fn new_add_gap_m32() { add_case(false, -32) }
    #[kani::solver(kissat)] #[kani::unwind(6)] fn new_add_gap_m31() { add_case(false, -31) }
    #[kani::solver(kissat)] #[kani::unwind(6)] fn new_add_gap_m30() { add_case(false, -30) }
    #[kani::solver(kissat)] #[kani::unwind(6)] fn new_add_gap_m29() { add_case(false, -29) }
    #[kani::solver(kissat)] #[kani::unwind(6)] fn new_add_gap_m28() { add_case(false, -28) }
    #[kani::solver(kissat)] #[kani::unwind(6)] fn new_add_gap_m27() { add_case(false, -27) }
    #[kani::solver(kissat)] #[kani::unwind(6)] fn new_add_gap_m26() { add_case(false, -26) }
    #[kani::solver(kissat)] #[kani::unwind(6)] fn new_add_gap_m25() { add_case(false, -25) }
    #[kani::solver(kissat)] #[kani::unwind(6)] fn new_add_gap_m24() { add_case(false, -24) }
    #[kani::solver(kissat)] #[kani::unwind(6)] fn new_add_gap_m23() { add_case(false, -23) }
    #[kani::solver(kissat)] #[kani::unwind(6)] fn new_add_gap_m22() { add_case(false, -22) }
    #[kani::solver(kissat)] #[kani::unwind(6)] fn new_add_gap_m21() { add_case(false, -21) }
    #[kani::solver(kissat)] #[kani::unwind(6)] fn new_add_gap_m20() { add_case(false, -20) }
    #[kani::solver(kissat)] #[kani::unwind(6)] fn new_add_gap_m19() { add_case(false, -19) }
    #[kani::solver(kissat)] #[kani::unwind(6)] fn new_add_gap_m18() { add_case(false, -18) }
    #[kani::solver(kissat)] #[kani::unwind(6)] fn new_add_gap_m17() { add_case(false, -17) }
    #[kani::solver(kissat)] #[kani::unwind(6)] fn new_add_gap_m16() { add_case(false, -16) }
    #[kani::solver(kissat)] #[kani::unwind(6)] fn new_add_gap_m15() { add_case(false, -15) }
    #[kani::solver(kissat)] #[kani::unwind(6)] fn new_add_gap_m14() { add_case(false, -14) }
    #[kani::solver(kissat)] #[kani::unwind(6)] fn new_add_gap_m13() { add_case(false, -13) }
    #[kani::solver(kissat)] #[kani::unwind(6)] fn new_add_gap_m12() { add_case(false, -12) }
    #[kani::solver(kissat)] #[kani::unwind(6)] fn new_add_gap_m11() { add_case(false, -11) }
    #[kani::solver(kissat)] #[kani::unwind(6)] fn new_add_gap_m10() { add_case(false, -10) }
    #[kani::solver(kissat)] #[kani::unwind(6)] fn new_add_gap_m9() { add_case(false, -9) }
    #[kani::solver(kissat)] #[kani::unwind(6)] fn new_add_gap_m8() { add_case(false, -8) }
    #[kani::solver(kissat)] #[kani::unwind(6)] fn new_add_gap_m7() { add_case(false, -7) }
    #[kani::solver(kissat)] #[kani::unwind(6)] fn new_add_gap_m6() { add_case(false, -6) }
    #[kani::solver(kissat)] #[kani::unwind(6)] fn new_add_gap_m5() { add_case(false, -5) }
    #[kani::solver(kissat)] #[kani::unwind(6)] fn new_add_gap_m4() { add_case(false, -4) }
    #[kani::solver(kissat)] #[kani::unwind(6)] fn new_add_gap_m3() { add_case(false, -3) }
    #[kani::solver(kissat)] #[kani::unwind(6)] fn new_add_gap_m2() { add_case(false, -2) }
    #[kani::solver(kissat)] #[kani::unwind(6)] fn new_add_gap_m1() { add_case(false, -1) }
    #[kani::solver(kissat)] #[kani::unwind(6)] fn new_add_gap_p0() { add_case(false, 0) }
    #[kani::solver(kissat)] #[kani::unwind(6)] fn new_add_gap_p1() { add_case(false, 1) }
    #[kani::solver(kissat)] #[kani::unwind(6)] fn new_add_gap_p2() { add_case(false, 2) }
    #[kani::solver(kissat)] #[kani::unwind(6)] fn new_add_gap_p3() { add_case(false, 3) }
    #[kani::solver(kissat)] #[kani::unwind(6)] fn new_add_gap_p4() { add_case(false, 4) }
    #[kani::solver(kissat)] #[kani::unwind(6)] fn new_add_gap_p5() { add_case(false, 5) }
    #[kani::solver(kissat)] #[kani::unwind(6)] fn new_add_gap_p6() { add_case(false, 6) }
    #[kani::solver(kissat)] #[kani::unwind(6)] fn new_add_gap_p7() { add_case(false, 7) }
    #[kani::solver(kissat)] #[kani::unwind(6)] fn new_add_gap_p8() { add_case(false, 8) }
    #[kani::solver(kissat)] #[kani::unwind(6)] fn new_add_gap_p9() { add_case(false, 9) }
    #[kani::solver(kissat)] #[kani::unwind(6)] fn new_add_gap_p10() { add_case(false, 10) }
    #[kani::solver(kissat)] #[kani::unwind(6)] fn new_add_gap_p11() { add_case(false, 11) }
    #[kani::solver(kissat)] #[kani::unwind(6)] fn new_add_gap_p12() { add_case(false, 12) }
    #[kani::solver(kissat)] #[kani::unwind(6)] fn new_add_gap_p13() { add_case(false, 13) }
    #[kani::solver(kissat)] #[kani::unwind(6)] fn new_add_gap_p14() { add_case(false, 14) }
    #[kani::solver(kissat)] #[kani::unwind(6)] fn new_add_gap_p15() { add_case(false, 15) }
    #[kani::solver(kissat)] #[kani::unwind(6)] fn new_add_gap_p16() { add_case(false, 16) }
    #[kani::solver(kissat)] #[kani::unwind(6)] fn new_add_gap_p17() { add_case(false, 17) }
    #[kani::solver(kissat)] #[kani::unwind(6)] fn new_add_gap_p18() { add_case(false, 18) }
    #[kani::solver(kissat)] #[kani::unwind(6)] fn new_add_gap_p19() { add_case(false, 19) }
    #[kani::solver(kissat)] #[kani::unwind(6)] fn new_add_gap_p20() { add_case(false, 20) }
    #[kani::solver(kissat)] #[kani::unwind(6)] fn new_add_gap_p21() { add_case(false, 21) }
    #[kani::solver(kissat)] #[kani::unwind(6)] fn new_add_gap_p22() { add_case(false, 22) }
    #[kani::solver(kissat)] #[kani::unwind(6)] fn new_add_gap_p23() { add_case(false, 23) }
    #[kani::solver(kissat)] #[kani::unwind(6)] fn new_add_gap_p24() { add_case(false, 24) }
    #[kani::solver(kissat)] #[kani::unwind(6)] fn new_add_gap_p25() { add_case(false, 25) }
    #[kani::solver(kissat)] #[kani::unwind(6)] fn new_add_gap_p26() { add_case(false, 26) }
    #[kani::solver(kissat)] #[kani::unwind(6)] fn new_add_gap_p27() { add_case(false, 27) }
    #[kani::solver(kissat)] #[kani::unwind(6)] fn new_add_gap_p28() { add_case(false, 28) }
    #[kani::solver(kissat)] #[kani::unwind(6)] fn new_add_gap_p29() { add_case(false, 29) }
    #[kani::solver(kissat)] #[kani::unwind(6)] fn new_add_gap_p30() { add_case(false, 30) }
    #[kani::solver(kissat)] #[kani::unwind(6)] fn new_add_gap_p31() { add_case(false, 31) }
    #[kani::solver(kissat)] #[kani::unwind(6)] fn new_add_gap_p32() { add_case(false, 32) }
    #[kani::solver(kissat)] #[kani::unwind(6)] fn new_add_gap_p33() { add_case(false, 33) }
    #[kani::solver(kissat)] #[kani::unwind(6)] fn new_add_gap_p34() { add_case(false, 34) }
    #[kani::solver(kissat)] #[kani::unwind(6)] fn new_add_gap_p35() { add_case(false, 35) }
    #[kani::solver(kissat)] #[kani::unwind(6)] fn new_add_gap_p36() { add_case(false, 36) }
    #[kani::solver(kissat)] #[kani::unwind(6)] fn new_add_gap_p37() { add_case(false, 37) }
    #[kani::solver(kissat)] #[kani::unwind(6)] fn new_add_gap_p38() { add_case(false, 38) }
    #[kani::solver(kissat)] #[kani::unwind(6)] fn new_add_gap_p39() { add_case(false, 39) }
    #[kani::solver(kissat)] #[kani::unwind(6)] fn new_add_gap_p40() { add_case(false, 40) }
    #[kani::solver(kissat)] #[kani::unwind(6)] fn new_add_gap_p41() { add_case(false, 41) }
    #[kani::solver(kissat)] #[kani::unwind(6)] fn new_add_gap_p42() { add_case(false, 42) }
    #[kani::solver(kissat)] #[kani::unwind(6)] fn new_add_gap_p43() { add_case(false, 43) }
    #[kani::solver(kissat)] #[kani::unwind(6)] fn new_add_gap_p44() { add_case(false, 44) }
    #[kani::solver(kissat)] #[kani::unwind(6)] fn new_add_gap_p45() { add_case(false, 45) }
    #[kani::solver(kissat)] #[kani::unwind(6)] fn new_add_gap_p46() { add_case(false, 46) }
    #[kani::solver(kissat)] #[kani::unwind(6)] fn new_add_gap_p47() { add_case(false, 47) }
    #[kani::solver(kissat)] #[kani::unwind(6)] fn new_add_gap_p48() { add_case(false, 48) }
    #[kani::solver(kissat)] #[kani::unwind(6)] fn new_add_gap_p49() { add_case(false, 49) }
    #[kani::solver(kissat)] #[kani::unwind(6)] fn new_add_gap_p50() { add_case(false, 50) }
    #[kani::solver(kissat)] #[kani::unwind(6)] fn new_add_gap_p51() { add_case(false, 51) }
    #[kani::solver(kissat)] #[kani::unwind(6)] fn new_add_gap_p52() { add_case(false, 52) }
    #[kani::solver(kissat)] #[kani::unwind(6)] fn new_add_gap_p53() { add_case(false, 53) }
    #[kani::solver(kissat)] #[kani::unwind(6)] fn new_add_gap_p54() { add_case(false, 54) }
    #[kani::solver(kissat)] #[kani::unwind(6)] fn new_add_gap_p55() { add_case(false, 55) }
    #[kani::solver(kissat)] #[kani::unwind(6)] fn new_add_gap_p56() { add_case(false, 56) }
    #[kani::solver(kissat)] #[kani::unwind(6)] fn new_add_far_p() { add_case(false, FAR) }
    #[kani::solver(kissat)] #[kani::unwind(6)] fn new_add_far_m() { add_case(false, -FAR) }
    #[kani::solver(kissat)] #[kani::unwind(6)] fn new_add_zero() { add_case(false, ZERO) }
    #[kani::solver(kissat)] #[kani::unwind(6)] fn new_sub_gap_m56() { add_case(true, -56) }
    #[kani::solver(kissat)] #[kani::unwind(6)] fn new_sub_gap_m55() { add_case(true, -55) }
    #[kani::solver(kissat)] #[kani::unwind(6)] fn new_sub_gap_m54() { add_case(true, -54) }
    #[kani::solver(kissat)] #[kani::unwind(6)] fn new_sub_gap_m53() { add_case(true, -53) }
    #[kani::solver(kissat)] #[kani::unwind(6)] fn new_sub_gap_m52() { add_case(true, -52) }
    #[kani::solver(kissat)] #[kani::unwind(6)] fn new_sub_gap_m51() { add_case(true, -51) }
    #[kani::solver(kissat)] #[kani::unwind(6)] fn new_sub_gap_m50() { add_case(true, -50) }
    #[kani::solver(kissat)] #[kani::unwind(6)] fn new_sub_gap_m49() { add_case(true, -49) }
    #[kani::solver(kissat)] #[kani::unwind(6)] fn new_sub_gap_m48() { add_case(true, -48) }
    #[kani::solver(kissat)] #[kani::unwind(6)] fn new_sub_gap_m47() { add_case(true, -47) }
    #[kani::solver(kissat)] #[kani::unwind(6)] fn new_sub_gap_m46() { add_case(true, -46) }
    #[kani::solver(kissat)] #[kani::unwind(6)] fn new_sub_gap_m45() { add_case(true, -45) }
    #[kani::solver(kissat)] #[kani::unwind(6)] fn new_sub_gap_m44() { add_case(true, -44) }
    #[kani::solver(kissat)] #[kani::unwind(6)] fn new_sub_gap_m43() { add_case(true, -43) }
    #[kani::solver(kissat)] #[kani::unwind(6)] fn new_sub_gap_m42() { add_case(true, -42) }
    #[kani::solver(kissat)] #[kani::unwind(6)] fn new_sub_gap_m41() { add_case(true, -41) }
    #[kani::solver(kissat)] #[kani::unwind(6)] fn new_sub_gap_m40() { add_case(true, -40) }
    #[kani::solver(kissat)] #[kani::unwind(6)] fn new_sub_gap_m39() { add_case(true, -39) }
    #[kani::solver(kissat)] #[kani::unwind(6)] fn new_sub_gap_m38() { add_case(true, -38) }
    #[kani::solver(kissat)] #[kani::unwind(6)] fn new_sub_gap_m37() { add_case(true, -37) }
    #[kani::solver(kissat)] #[kani::unwind(6)] fn new_sub_gap_m36() { add_case(true, -36) }
    #[kani::solver(kissat)] #[kani::unwind(6)] fn new_sub_gap_m35() { add_case(true, -35) }
    #[kani::solver(kissat)] #[kani::unwind(6)] fn new_sub_gap_m34() { add_case(true, -34) }
    #[kani::solver(kissat)] #[kani::unwind(6)] fn new_sub_gap_m33() { add_case(true, -33) }
    #[kani::solver(kissat)] #[kani::unwind(6)] fn new_sub_gap_m32() { add_case(true, -32) }
    #[kani::solver(kissat)] #[kani::unwind(6)] fn new_sub_gap_m31() { add_case(true, -31) }
    #[kani::solver(kissat)] #[kani::unwind(6)] fn new_sub_gap_m30() { add_case(true, -30) }
    #[kani::solver(kissat)] #[kani::unwind(6)] fn new_sub_gap_m29() { add_case(true, -29) }
    #[kani::solver(kissat)] #[kani::unwind(6)] fn new_sub_gap_m28() { add_case(true, -28) }
    #[kani::solver(kissat)] #[kani::unwind(6)] fn new_sub_gap_m27() { add_case(true, -27) }
    #[kani::solver(kissat)] #[kani::unwind(6)] fn new_sub_gap_m26() { add_case(true, -26) }
    #[kani::solver(kissat)] #[kani::unwind(6)] fn new_sub_gap_m25() { add_case(true, -25) }
    #[kani::solver(kissat)] #[kani::unwind(6)] fn new_sub_gap_m24() { add_case(true, -24) }
    #[kani::solver(kissat)] #[kani::unwind(6)] fn new_sub_gap_m23() { add_case(true, -23) }
    #[kani::solver(kissat)] #[kani::unwind(6)] fn new_sub_gap_m22() { add_case(true, -22) }
    #[kani::solver(kissat)] #[kani::unwind(6)] fn new_sub_gap_m21() { add_case(true, -21) }
    #[kani::solver(kissat)] #[kani::unwind(6)] fn new_sub_gap_m20() { add_case(true, -20) }
    #[kani::solver(kissat)] #[kani::unwind(6)] fn new_sub_gap_m19() { add_case(true, -19) }
    #[kani::solver(kissat)] #[kani::unwind(6)] fn new_sub_gap_m18() { add_case(true, -18) }
    #[kani::solver(kissat)] #[kani::unwind(6)] fn new_sub_gap_m17() { add_case(true, -17) }
    #[kani::solver(kissat)] #[kani::unwind(6)] fn new_sub_gap_m16() { add_case(true, -16) }
    #[kani::solver(kissat)] #[kani::unwind(6)] fn new_sub_gap_m15() { add_case(true, -15) }
    #[kani::solver(kissat)] #[kani::unwind(6)] fn new_sub_gap_m14() { add_case(true, -14) }
    #[kani::solver(kissat)] #[kani::unwind(6)] fn new_sub_gap_m13() { add_case(true, -13) }
    #[kani::solver(kissat)] #[kani::unwind(6)] fn new_sub_gap_m12() { add_case(true, -12) }
    #[kani::solver(kissat)] #[kani::unwind(6)] fn new_sub_gap_m11() { add_case(true, -11) }
    #[kani::solver(kissat)] #[kani::unwind(6)] fn new_sub_gap_m10() { add_case(true, -10) }
    #[kani::solver(kissat)] #[kani::unwind(6)] fn new_sub_gap_m9() { add_case(true, -9) }
    #[kani::solver(kissat)] #[kani::unwind(6)] fn new_sub_gap_m8() { add_case(true, -8) }
    #[kani::solver(kissat)] #[kani::unwind(6)] fn new_sub_gap_m7() { add_case(true, -7) }
    #[kani::solver(kissat)] #[kani::unwind(6)] fn new_sub_gap_m6() { add_case(true, -6) }
    #[kani::solver(kissat)] #[kani::unwind(6)] fn new_sub_gap_m5() { add_case(true, -5) }
    #[kani::solver(kissat)] #[kani::unwind(6)] fn new_sub_gap_m4() { add_case(true, -4) }
    #[kani::solver(kissat)] #[kani::unwind(6)] fn new_sub_gap_m3() { add_case(true, -3) }
    #[kani::solver(kissat)] #[kani::unwind(6)] fn new_sub_gap_m2() { add_case(true, -2) }
    #[kani::solver(kissat)] #[kani::unwind(6)] fn new_sub_gap_m1() { add_case(true, -1) }
    #[kani::solver(kissat)] #[kani::unwind(6)] fn new_sub_gap_p0() { add_case(true, 0) }
    #[kani::solver(kissat)] #[kani::unwind(6)] fn new_sub_gap_p1() { add_case(true, 1) }
    #[kani::solver(kissat)] #[kani::unwind(6)] fn new_sub_gap_p2() { add_case(true, 2) }
    #[kani::solver(kissat)] #[kani::unwind(6)] fn new_sub_gap_p3() { add_case(true, 3) }
    #[kani::solver(kissat)] #[kani::unwind(6)] fn new_sub_gap_p4() { add_case(true, 4) }
    #[kani::solver(kissat)] #[kani::unwind(6)] fn new_sub_gap_p5() { add_case(true, 5) }
    #[kani::solver(kissat)] #[kani::unwind(6)] fn new_sub_gap_p6() { add_case(true, 6) }
    #[kani::solver(kissat)] #[kani::unwind(6)] fn new_sub_gap_p7() { add_case(true, 7) }
    #[kani::solver(kissat)] #[kani::unwind(6)] fn new_sub_gap_p8() { add_case(true, 8) }
    #[kani::solver(kissat)] #[kani::unwind(6)] fn new_sub_gap_p9() { add_case(true, 9) }
    #[kani::solver(kissat)] #[kani::unwind(6)] fn new_sub_gap_p10() { add_case(true, 10) }
    #[kani::solver(kissat)] #[kani::unwind(6)] fn new_sub_gap_p11() { add_case(true, 11) }
    #[kani::solver(kissat)] #[kani::unwind(6)] fn new_sub_gap_p12() { add_case(true, 12) }
    #[kani::solver(kissat)] #[kani::unwind(6)] fn new_sub_gap_p13() { add_case(true, 13) }
    #[kani::solver(kissat)] #[kani::unwind(6)] fn new_sub_gap_p14() { add_case(true, 14) }
    #[kani::solver(kissat)] #[kani::unwind(6)] fn new_sub_gap_p15() { add_case(true, 15) }
    #[kani::solver(kissat)] #[kani::unwind(6)] fn new_sub_gap_p16() { add_case(true, 16) }
    #[kani::solver(kissat)] #[kani::unwind(6)] fn new_sub_gap_p17() { add_case(true, 17) }
    #[kani::solver(kissat)] #[kani::unwind(6)] fn new_sub_gap_p18() { add_case(true, 18) }
    #[kani::solver(kissat)] #[kani::unwind(6)] fn new_sub_gap_p19() { add_case(true, 19) }
    #[kani::solver(kissat)] #[kani::unwind(6)] fn new_sub_gap_p20() { add_case(true, 20) }
    #[kani::solver(kissat)] #[kani::unwind(6)] fn new_sub_gap_p21() { add_case(true, 21) }
    #[kani::solver(kissat)] #[kani::unwind(6)] fn new_sub_gap_p22() { add_case(true, 22) }
    #[kani::solver(kissat)] #[kani::unwind(6)] fn new_sub_gap_p23() { add_case(true, 23) }
    #[kani::solver(kissat)] #[kani::unwind(6)] fn new_sub_gap_p24() { add_case(true, 24) }
    #[kani::solver(kissat)] #[kani::unwind(6)] fn new_sub_gap_p25() { add_case(true, 25) }
    #[kani::solver(kissat)] #[kani::unwind(6)] fn new_sub_gap_p26() { add_case(true, 26) }
    #[kani::solver(kissat)] #[kani::unwind(6)] fn new_sub_gap_p27() { add_case(true, 27) }
    #[kani::solver(kissat)] #[kani::unwind(6)] fn new_sub_gap_p28() { add_case(true, 28) }
    #[kani::solver(kissat)] #[kani::unwind(6)] fn new_sub_gap_p29() { add_case(true, 29) }
    #[kani::solver(kissat)] #[kani::unwind(6)] fn new_sub_gap_p30() { add_case(true, 30) }
    #[kani::solver(kissat)] #[kani::unwind(6)] fn new_sub_gap_p31() { add_case(true, 31) }
    #[kani::solver(kissat)] #[kani::unwind(6)] fn new_sub_gap_p32() { add_case(true, 32) }
    #[kani::solver(kissat)] #[kani::unwind(6)] fn new_sub_gap_p33() { add_case(true, 33) }
    #[kani::solver(kissat)] #[kani::unwind(6)] fn new_sub_gap_p34() { add_case(true, 34) }
    #[kani::solver(kissat)] #[kani::unwind(6)] fn new_sub_gap_p35() { add_case(true, 35) }
    #[kani::solver(kissat)] #[kani::unwind(6)] fn new_sub_gap_p36() { add_case(true, 36) }
    #[kani::solver(kissat)] #[kani::unwind(6)] fn new_sub_gap_p37() { add_case(true, 37) }
    #[kani::solver(kissat)] #[kani::unwind(6)] fn new_sub_gap_p38() { add_case(true, 38) }
    #[kani::solver(kissat)] #[kani::unwind(6)] fn new_sub_gap_p39() { add_case(true, 39) }
    #[kani::solver(kissat)] #[kani::unwind(6)] fn new_sub_gap_p40() { add_case(true, 40) }
    #[kani::solver(kissat)] #[kani::unwind(6)] fn new_sub_gap_p41() { add_case(true, 41) }
    #[kani::solver(kissat)] #[kani::unwind(6)] fn new_sub_gap_p42() { add_case(true, 42) }
    #[kani::solver(kissat)] #[kani::unwind(6)] fn new_sub_gap_p43() { add_case(true, 43) }
    #[kani::solver(kissat)] #[kani::unwind(6)] fn new_sub_gap_p44() { add_case(true, 44) }
    #[kani::solver(kissat)] #[kani::unwind(6)] fn new_sub_gap_p45() { add_case(true, 45) }
    #[kani::solver(kissat)] #[kani::unwind(6)] fn new_sub_gap_p46() { add_case(true, 46) }
    #[kani::solver(kissat)] #[kani::unwind(6)] fn new_sub_gap_p47() { add_case(true, 47) }
    #[kani::solver(kissat)] #[kani::unwind(6)] fn new_sub_gap_p48() { add_case(true, 48) }
    #[kani::solver(kissat)] #[kani::unwind(6)] fn new_sub_gap_p49() { add_case(true, 49) }
    #[kani::solver(kissat)] #[kani::unwind(6)] fn new_sub_gap_p50() { add_case(true, 50) }
    #[kani::solver(kissat)] #[kani::unwind(6)] fn new_sub_gap_p51() { add_case(true, 51) }
    #[kani::solver(kissat)] #[kani::unwind(6)] fn new_sub_gap_p52() { add_case(true, 52) }
    #[kani::solver(kissat)] #[kani::unwind(6)] fn new_sub_gap_p53() { add_case(true, 53) }
    #[kani::solver(kissat)] #[kani::unwind(6)] fn new_sub_gap_p54() { add_case(true, 54) }
    #[kani::solver(kissat)] #[kani::unwind(6)] fn new_sub_gap_p55() { add_case(true, 55) }
    #[kani::solver(kissat)] #[kani::unwind(6)] fn new_sub_gap_p56() { add_case(true, 56) }
    #[kani::solver(kissat)] #[kani::unwind(6)] fn new_sub_far_p() { add_case(true, FAR) }
    #[kani::solver(kissat)] #[kani::unwind(6)] fn new_sub_far_m() { add_case(true, -FAR) }
    #[kani::solver(kissat)] #[kani::unwind(6)] fn new_sub_zero() { add_case(true, ZERO) }
}
