//! Run-time shims: one harness text, two meanings (Kani / native replay).

/// Declares harnesses.  Under Kani each becomes a `#[kani::proof]` with the
/// listed attributes; natively each is a plain function listed in `TABLE`.
macro_rules! harnesses {
    ($( $(#[$m:meta])* fn $name:ident() $body:block )*) => {
        $( #[cfg_attr(kani, kani::proof)] $(#[cfg_attr(kani, $m)])* pub fn $name() $body )*
        pub const TABLE: &[(&str, fn())] = &[ $( (concat!(module_path!(), "::", stringify!($name)), $name as fn()) ),* ];
    };
}

#[cfg(kani)]
macro_rules! any_f64 { () => { kani::any::<f64>() }; }
#[cfg(kani)]
macro_rules! any_u64 { () => { kani::any::<u64>() }; }
#[cfg(kani)]
macro_rules! any_i32 { () => { kani::any::<i32>() }; }
#[cfg(kani)]
macro_rules! any_u8 { () => { kani::any::<u8>() }; }
#[cfg(kani)]
macro_rules! any_bool { () => { kani::any::<bool>() }; }
#[cfg(kani)]
macro_rules! any_int { ($t:ty) => { kani::any::<$t>() }; }
#[cfg(kani)]
macro_rules! vassume { ($c:expr) => { kani::assume($c) }; }
#[cfg(kani)]
macro_rules! vassert { ($c:expr, $m:literal) => { assert!($c, $m) }; }
#[cfg(kani)]
macro_rules! vcover { ($c:expr, $m:literal) => { kani::cover!($c, $m) }; }

#[cfg(not(kani))]
macro_rules! any_f64 { () => { f64::from_bits($crate::verif::rt::next(8) as u64) }; }
#[cfg(not(kani))]
macro_rules! any_u64 { () => { $crate::verif::rt::next(8) as u64 }; }
#[cfg(not(kani))]
macro_rules! any_i32 { () => { $crate::verif::rt::next(4) as u32 as i32 }; }
#[cfg(not(kani))]
macro_rules! any_u8 { () => { $crate::verif::rt::next(1) as u8 }; }
#[cfg(not(kani))]
macro_rules! any_bool { () => { ($crate::verif::rt::next(1) & 1) != 0 }; }
#[cfg(not(kani))]
macro_rules! any_int { ($t:ty) => { $crate::verif::rt::next(core::mem::size_of::<$t>()) as $t }; }
#[cfg(not(kani))]
macro_rules! vassume { ($c:expr) => { $crate::verif::rt::assume($c, stringify!($c)) }; }
#[cfg(not(kani))]
macro_rules! vassert { ($c:expr, $m:literal) => { $crate::verif::rt::check($c, $m) }; }
#[cfg(not(kani))]
macro_rules! vcover { ($c:expr, $m:literal) => { let _ = $c; }; }

#[cfg(not(kani))]
pub use native::*;

#[cfg(not(kani))]
mod native {
    extern crate std;
    use std::cell::RefCell;
    use std::string::String;
    use std::vec::Vec;

    #[derive(Default)]
    pub struct Ctx {
        /// recorded draws: (size in bytes, little-endian value)
        pub inputs: Vec<(usize, u128)>,
        pub pos: usize,
        pub skipped: Option<String>,
        pub failures: Vec<String>,
        pub underflow: bool,
        pub size_mismatch: bool,
        pub drawn: Vec<(usize, u128)>,
    }
    std::thread_local! { pub static CTX: RefCell<Ctx> = RefCell::new(Ctx::default()); }

    pub fn next(size: usize) -> u128 {
        CTX.with(|c| {
            let mut c = c.borrow_mut();
            let v = if c.pos < c.inputs.len() {
                let (s, v) = c.inputs[c.pos];
                if s != size { c.size_mismatch = true; }
                v
            } else { c.underflow = true; 0 };
            c.pos += 1;
            let v = if size >= 16 { v } else { v & ((1u128 << (8 * size)) - 1) };
            c.drawn.push((size, v));
            v
        })
    }
    pub fn assume(cond: bool, what: &str) {
        if !cond { CTX.with(|c| { let mut c = c.borrow_mut(); if c.skipped.is_none() { c.skipped = Some(String::from(what)); } }); }
    }
    pub fn check(cond: bool, clause: &str) {
        if !cond { CTX.with(|c| { let mut c = c.borrow_mut(); if c.skipped.is_none() { c.failures.push(String::from(clause)); } }); }
    }
    pub fn reset(inputs: Vec<(usize, u128)>) { CTX.with(|c| { *c.borrow_mut() = Ctx { inputs, ..Ctx::default() }; }); }
    pub fn take() -> Ctx { CTX.with(|c| core::mem::take(&mut *c.borrow_mut())) }
}
