//! C03 — addition and subtraction meet the proven double-word error bounds.
//!
//! Decomposition (DESIGN section 6, C03):
//!  (a) every operator / compound-assignment body is bit-identical, for all
//!      operand patterns, to the published algorithm (Joldes-Muller-Popescu
//!      2017, Alg. 4 DWPlusFP resp. Alg. 6 AccurateDWPlusDW) composed of the
//!      contracted leaves `new_add`/`new_sub`/`fast_two_sum`   [this file, `alg_*`];
//!  (b) the leaves are error-free transformations                [c02.rs];
//!  (c) the algorithm's error bound: assumed lemma (published theorem,
//!      formalised in Coq by Muller-Rideau 2022); for Alg. 4 additionally
//!      mechanised here per exponent gap with ghost values        [`acc4_*`].
//! Natively (replay) every obligation is judged by the bound itself in `Fix`.
use super::contracts::*;
use super::spec::fix::{fx, Fix};
use super::spec::win::{W, X, Y};
use super::spec::*;
use crate::arithmetic::fast_two_sum;
use crate::TwoFloat;

// ---- the published algorithms, over the contracted leaves
pub fn alg4(xh: f64, xl: f64, y: f64) -> TwoFloat {
    let s = TwoFloat::new_add(xh, y);
    let v = xl + s.lo;
    fast_two_sum(s.hi, v)
}
/// x - y
pub fn alg4_sub(xh: f64, xl: f64, y: f64) -> TwoFloat {
    let s = TwoFloat::new_sub(xh, y);
    let v = xl + s.lo;
    fast_two_sum(s.hi, v)
}
/// y - x
pub fn alg4_rsub(y: f64, xh: f64, xl: f64) -> TwoFloat {
    let s = TwoFloat::new_sub(y, xh);
    let v = s.lo - xl;
    fast_two_sum(s.hi, v)
}
pub fn alg6(xh: f64, xl: f64, yh: f64, yl: f64, sub: bool) -> TwoFloat {
    let s = if sub { TwoFloat::new_sub(xh, yh) } else { TwoFloat::new_add(xh, yh) };
    let t = if sub { TwoFloat::new_sub(xl, yl) } else { TwoFloat::new_add(xl, yl) };
    let c = s.lo + t.hi;
    let v = fast_two_sum(s.hi, c);
    let w = t.lo + v.lo;
    fast_two_sum(v.hi, w)
}

/// |r - exact| <= num * 2^-sh * |exact|, exact = x + sy * y  (Layer 1)
pub fn bound_ok(r: &TwoFloat, x: Fix, y: Fix, sub: bool, num: u64, sh: usize) -> bool {
    if !(r.hi.is_finite() && r.lo.is_finite()) { return false; }
    let exact = if sub { x.sub(y) } else { x.add(y) };
    Fix::rel_le(val(r).sub(exact), exact, num, sh)
}
/// 3 * 2^-106 + 13 * 2^-159 == (3 * 2^53 + 13) * 2^-159
pub const K6: u64 = 3 * (1u64 << 53) + 13;

#[derive(Clone, Copy, PartialEq)]
pub enum Form { Op, Assign }

// ---- bounded domain B(k) used by the witness-search / bounded stand-in obligations:
// significands of k bits, high words in [2^-30, 2^30], low words 0 or >= 2^-140
pub const BK: u32 = 12;
pub const ANCH: i32 = 1075 - 200; // window unit 2^-200
pub fn short_k(x: f64, k: u32) -> bool { x.to_bits() & ((1u64 << (52 - k)) - 1) == 0 }
pub fn bhi(x: f64) -> bool { short_k(x, BK) && x.abs() >= 9.313225746154785e-10 && x.abs() <= 1073741824.0 }
pub fn blo(x: f64) -> bool { short_k(x, BK) && (x == 0.0 || x.abs() >= 7.174648137343064e-43) }
/// |zh + zl - e| * 2^sh <= num * |e| in a 512-bit window anchored at 2^-200 (e, zh, zl multiples of the unit)
pub fn bound_win(r: &TwoFloat, terms: [f64; 4], neg: [bool; 4], num: u64, sh: u32) -> bool {
    let mut e = Y::zero();
    let mut i = 0;
    while i < 4 {
        match Y::at(terms[i], ANCH, 260) { Some(v) => { e = if neg[i] { e.sub(v) } else { e.add(v) }; } None => return false }
        i += 1;
    }
    match (Y::at(r.hi, ANCH, 260), Y::at(r.lo, ANCH, 260)) {
        (Some(zh), Some(zl)) => zh.add(zl).sub(e).abs().shl(sh).le(e.abs().mul_small(num)),
        _ => false,
    }
}

/// TwoFloat (+|-) f64 and f64 (+|-) TwoFloat: body == Alg. 4 (solver) / 2u^2 bound (native)
fn tf_f64_case(sub: bool, f64_left: bool, form: Form) {
    let x = any_tf(); let y = any_f64!();
    #[cfg(not(kani))]
    { vassume!(valid(x.hi, x.lo) && in1000(x.hi) && in1000(y)); }
    let r = match (sub, f64_left, form) {
        (false, false, Form::Op) => &x + &y,
        (false, true, _) => &y + &x,
        (true, false, Form::Op) => &x - &y,
        (true, true, _) => &y - &x,
        (false, false, Form::Assign) => { let mut t = x; t += &y; t }
        (true, false, Form::Assign) => { let mut t = x; t -= &y; t }
    };
    #[cfg(kani)]
    {
        let e = match (sub, f64_left) {
            (false, _) => alg4(x.hi, x.lo, y),
            (true, false) => alg4_sub(x.hi, x.lo, y),
            (true, true) => alg4_rsub(y, x.hi, x.lo),
        };
        vassert!(same_tf(&r, &e), "operator body is bit-identical to Algorithm 4 (DWPlusFP) over the contracted leaves");
    }
    #[cfg(not(kani))]
    {
        let (a, b) = if f64_left { (fx(y), val(&x)) } else { (val(&x), fx(y)) };
        vassert!(bound_ok(&r, a, b, sub, 2, 106), "TwoFloat +- f64 within 2 * 2^-106 of the exact sum");
    }
}

/// TwoFloat (+|-) TwoFloat: body == Alg. 6 (solver) / 3u^2 + 13u^3 bound (native)
fn tf_tf_case(sub: bool, form: Form) {
    let x = any_tf(); let y = any_tf();
    #[cfg(not(kani))]
    { vassume!(valid(x.hi, x.lo) && valid(y.hi, y.lo) && in1000(x.hi) && in1000(y.hi)); }
    let r = match (sub, form) {
        (false, Form::Op) => &x + &y,
        (true, Form::Op) => &x - &y,
        (false, Form::Assign) => { let mut t = x; t += &y; t }
        (true, Form::Assign) => { let mut t = x; t -= &y; t }
    };
    #[cfg(kani)]
    { vassert!(same_tf(&r, &alg6(x.hi, x.lo, y.hi, y.lo, sub)), "operator body is bit-identical to Algorithm 6 (AccurateDWPlusDW) over the contracted leaves"); }
    #[cfg(not(kani))]
    { vassert!(bound_ok(&r, val(&x), val(&y), sub, K6, 159), "TwoFloat +- TwoFloat within 3 * 2^-106 + 13 * 2^-159 of the exact sum"); }
}

/// bounded stand-in / witness search: the error bound itself on the real operator, domain B(12)
fn bound_tf_f64_case(sub: bool, f64_left: bool, form: Form) {
    let x = any_valid(); let y = any_f64!();
    vassume!(bhi(x.hi) && blo(x.lo) && bhi(y));
    let r = match (sub, f64_left, form) {
        (false, false, Form::Op) => &x + &y,
        (false, true, _) => &y + &x,
        (true, false, Form::Op) => &x - &y,
        (true, true, _) => &y - &x,
        (false, false, Form::Assign) => { let mut t = x; t += &y; t }
        (true, false, Form::Assign) => { let mut t = x; t -= &y; t }
    };
    #[cfg(kani)]
    { vassert!(bound_win(&r, [x.hi, x.lo, y, 0.0], [sub && f64_left, sub && f64_left, sub && !f64_left, false], 2, 106), "TwoFloat +- f64 within 2 * 2^-106 of the exact sum"); }
    #[cfg(not(kani))]
    {
        let (a, b) = if f64_left { (fx(y), val(&x)) } else { (val(&x), fx(y)) };
        vassert!(bound_ok(&r, a, b, sub, 2, 106), "TwoFloat +- f64 within 2 * 2^-106 of the exact sum");
    }
    vcover!(x.lo != 0.0 && r.lo != 0.0, "non-trivial operands reachable");
}
fn bound_tf_tf_case(sub: bool, form: Form) {
    let x = any_valid(); let y = any_valid();
    vassume!(bhi(x.hi) && blo(x.lo) && bhi(y.hi) && blo(y.lo));
    let r = match (sub, form) {
        (false, Form::Op) => &x + &y,
        (true, Form::Op) => &x - &y,
        (false, Form::Assign) => { let mut t = x; t += &y; t }
        (true, Form::Assign) => { let mut t = x; t -= &y; t }
    };
    #[cfg(kani)]
    { vassert!(bound_win(&r, [x.hi, x.lo, y.hi, y.lo], [false, false, sub, sub], K6, 159), "TwoFloat +- TwoFloat within 3 * 2^-106 + 13 * 2^-159 of the exact sum"); }
    #[cfg(not(kani))]
    { vassert!(bound_ok(&r, val(&x), val(&y), sub, K6, 159), "TwoFloat +- TwoFloat within 3 * 2^-106 + 13 * 2^-159 of the exact sum"); }
    vcover!(x.lo != 0.0 && y.lo != 0.0 && r.lo != 0.0, "non-trivial operands reachable");
}

// ---- (c) mechanised for Algorithm 4: the 2u^2 bound per exponent gap, with ghost values.
// The leaf stubs record their results; with delta := sl +- xl - v (the rounding error of the one
// inexact addition, computed exactly in a 256-bit window anchored at the smallest term; far case:
// the addition returned one operand unchanged, so delta is the other) the exactness contracts give
// result - exact = -delta, and the obligation is |delta| * 2^105 <= |zh + zl + delta|.
use core::sync::atomic::{AtomicU64, Ordering::Relaxed};
static G_SL: AtomicU64 = AtomicU64::new(0);
static G_SH: AtomicU64 = AtomicU64::new(0);
static G_FA: AtomicU64 = AtomicU64::new(0);
static G_FB: AtomicU64 = AtomicU64::new(0);
#[cfg(kani)]
pub fn g_new_add(a: f64, b: f64) -> TwoFloat {
    let r = s_new_add(a, b);
    G_SH.store(r.hi.to_bits(), Relaxed); G_SL.store(r.lo.to_bits(), Relaxed);
    r
}
#[cfg(kani)]
pub fn g_new_sub(a: f64, b: f64) -> TwoFloat {
    let r = s_new_sub(a, b);
    G_SH.store(r.hi.to_bits(), Relaxed); G_SL.store(r.lo.to_bits(), Relaxed);
    r
}
#[cfg(kani)]
pub fn g_fts(a: f64, b: f64) -> TwoFloat {
    let r = s_fts(a, b);
    G_FA.store(a.to_bits(), Relaxed); G_FB.store(b.to_bits(), Relaxed);
    r
}
fn min3(a: i32, b: i32, c: i32) -> i32 { let m = if a < b { a } else { b }; if m < c { m } else { c } }

/// kind 0: x + y, 1: x - y, 2: y - x;  sel: exponent-field gap of (x.hi, y), +-1000 for the far cases
fn acc4_case(kind: u8, sel: i32) {
    let x = any_valid(); let y = any_f64!();
    vassume!(in1000(x.hi) && in1000(y));
    let g = eexp(x.hi) - eexp(y);
    if sel == 1000 { vassume!(g > 60) } else if sel == -1000 { vassume!(g < -60) } else { vassume!(g == sel) }
    let r = match kind { 0 => x + y, 1 => x - y, _ => y - x };
    vassert!(valid(r.hi, r.lo), "result is a valid TwoFloat");
    #[cfg(kani)]
    {
        let xl = if kind == 2 { -x.lo } else { x.lo };
        let sl = f64::from_bits(G_SL.load(Relaxed)); let sh = f64::from_bits(G_SH.load(Relaxed));
        let fa = f64::from_bits(G_FA.load(Relaxed)); let v = f64::from_bits(G_FB.load(Relaxed));
        vassert!(fa == sh, "structure: the final fast_two_sum is applied to (sh, v)");
        let a0 = min3(efld_nz(sl), efld_nz(xl), efld_nz(v));
        if a0 != i32::MAX {
            let mut okstruct = true;
            let (delta, anchor) = match (W::at(sl, a0, 190), W::at(xl, a0, 190), W::at(v, a0, 190)) {
                (Some(a), Some(b), Some(c)) => (a.add(b).sub(c), a0),
                _ => {
                    if v == sl { (W::at(xl, efld_nz(xl), 0).unwrap_or(W::zero()), efld_nz(xl)) }
                    else if v == xl { (W::at(sl, efld_nz(sl), 0).unwrap_or(W::zero()), efld_nz(sl)) }
                    else { okstruct = false; (W::zero(), 1) }
                }
            };
            vassert!(okstruct, "window: the three terms of delta fit, or the addition returned an operand unchanged");
            let dmag = delta.abs();
            let ok = if dmag.0[1] >> 16 != 0 || dmag.0[2] != 0 || dmag.0[3] != 0 { false }
                else if dmag.0[0] == 0 && dmag.0[1] == 0 { true }
                else {
                    match (W::at(r.hi, anchor, 190), W::at(r.lo, anchor, 190)) {
                        (Some(zh), Some(zl)) => dmag.shl(105).le(zh.add(zl).add(delta).abs()),
                        (None, _) => eexp(r.hi) - anchor > 190,
                        (Some(_), None) => false,
                    }
                };
            vassert!(ok, "|delta| * 2^105 <= |result + delta|  (relative error <= 2 * 2^-106)");
        }
    }
    #[cfg(not(kani))]
    {
        let (a, b, sub) = match kind { 0 => (val(&x), fx(y), false), 1 => (val(&x), fx(y), true), _ => (fx(y), val(&x), true) };
        vassert!(bound_ok(&r, a, b, sub, 2, 106), "TwoFloat +- f64 within 2 * 2^-106 of the exact sum");
    }
    vcover!(x.lo != 0.0 && r.lo != 0.0, "non-trivial operands reachable");
}

/// an exactly-zero sum yields zero.  For valid operands the exact sum is zero iff the
/// second operand is the word-wise negation of the first (normalised representations are
/// unique: hi = RN(value)); natively the premise is the definitional one.
fn zero_sum_case(kind: u8) {
    let x = any_valid();
    vassume!(in1000(x.hi));
    let r = match kind {
        0 => x + (-x),
        1 => x - x,
        2 => { vassume!(x.lo == 0.0); x + (-x.hi) }
        3 => { vassume!(x.lo == 0.0); (-x.hi) + x }
        4 => { vassume!(x.lo == 0.0); x - x.hi }
        5 => { vassume!(x.lo == 0.0); x.hi - x }
        6 => { let mut t = x; t += -x; t }
        _ => { let mut t = x; t -= x; t }
    };
    vassert!(r.hi == 0.0 && r.lo == 0.0, "an exactly-zero sum yields (0, 0)");
    vcover!(x.hi != 0.0, "non-zero operand reachable");
}

harnesses! {
    #[kani::solver(cvc5)] fn alg4_add_tf_f64() { tf_f64_case(false, false, Form::Op) }
    #[kani::solver(cvc5)] fn alg4_add_f64_tf() { tf_f64_case(false, true, Form::Op) }
    #[kani::solver(cvc5)] fn alg4_sub_tf_f64() { tf_f64_case(true, false, Form::Op) }
    #[kani::solver(cvc5)] fn alg4_sub_f64_tf() { tf_f64_case(true, true, Form::Op) }
    #[kani::solver(cvc5)] fn alg4_add_assign_f64() { tf_f64_case(false, false, Form::Assign) }
    #[kani::solver(cvc5)] fn alg4_sub_assign_f64() { tf_f64_case(true, false, Form::Assign) }
    #[kani::solver(cvc5)] fn alg6_add_tf_tf() { tf_tf_case(false, Form::Op) }
    #[kani::solver(cvc5)] fn alg6_sub_tf_tf() { tf_tf_case(true, Form::Op) }
    #[kani::solver(cvc5)] fn alg6_add_assign_tf() { tf_tf_case(false, Form::Assign) }
    #[kani::solver(cvc5)] fn alg6_sub_assign_tf() { tf_tf_case(true, Form::Assign) }

    // bounded stand-ins B(12) / witness search for the miters above (real, un-stubbed operators)
    #[kani::solver(kissat)] #[kani::unwind(70)] fn bound_add_tf_f64() { bound_tf_f64_case(false, false, Form::Op) }
    #[kani::solver(kissat)] #[kani::unwind(70)] fn bound_add_f64_tf() { bound_tf_f64_case(false, true, Form::Op) }
    #[kani::solver(kissat)] #[kani::unwind(70)] fn bound_sub_tf_f64() { bound_tf_f64_case(true, false, Form::Op) }
    #[kani::solver(kissat)] #[kani::unwind(70)] fn bound_sub_f64_tf() { bound_tf_f64_case(true, true, Form::Op) }
    #[kani::solver(kissat)] #[kani::unwind(70)] fn bound_add_assign_f64() { bound_tf_f64_case(false, false, Form::Assign) }
    #[kani::solver(kissat)] #[kani::unwind(70)] fn bound_sub_assign_f64() { bound_tf_f64_case(true, false, Form::Assign) }
    #[kani::solver(kissat)] #[kani::unwind(70)] fn bound_add_tf_tf() { bound_tf_tf_case(false, Form::Op) }
    #[kani::solver(kissat)] #[kani::unwind(70)] fn bound_sub_tf_tf() { bound_tf_tf_case(true, Form::Op) }
    #[kani::solver(kissat)] #[kani::unwind(70)] fn bound_add_assign_tf() { bound_tf_tf_case(false, Form::Assign) }
    #[kani::solver(kissat)] #[kani::unwind(70)] fn bound_sub_assign_tf() { bound_tf_tf_case(true, Form::Assign) }

    // ---- generated: 2u^2 bound of Algorithm 4 per exponent gap (thorough tier, seed-rotated)
    #[kani::solver(kissat)] #[kani::unwind(6)] #[kani::stub(crate::arithmetic::fast_two_sum, g_fts)] #[kani::stub(TwoFloat::new_add, g_new_add)] #[kani::stub(TwoFloat::new_sub, g_new_sub)] fn acc4_add_gap_m60() { acc4_case(0, -60) }
    #[kani::solver(kissat)] #[kani::unwind(6)] #[kani::stub(crate::arithmetic::fast_two_sum, g_fts)] #[kani::stub(TwoFloat::new_add, g_new_add)] #[kani::stub(TwoFloat::new_sub, g_new_sub)] fn acc4_add_gap_m59() { acc4_case(0, -59) }
    #[kani::solver(kissat)] #[kani::unwind(6)] #[kani::stub(crate::arithmetic::fast_two_sum, g_fts)] #[kani::stub(TwoFloat::new_add, g_new_add)] #[kani::stub(TwoFloat::new_sub, g_new_sub)] fn acc4_add_gap_m58() { acc4_case(0, -58) }
    #[kani::solver(kissat)] #[kani::unwind(6)] #[kani::stub(crate::arithmetic::fast_two_sum, g_fts)] #[kani::stub(TwoFloat::new_add, g_new_add)] #[kani::stub(TwoFloat::new_sub, g_new_sub)] fn acc4_add_gap_m57() { acc4_case(0, -57) }
    #[kani::solver(kissat)] #[kani::unwind(6)] #[kani::stub(crate::arithmetic::fast_two_sum, g_fts)] #[kani::stub(TwoFloat::new_add, g_new_add)] #[kani::stub(TwoFloat::new_sub, g_new_sub)] fn acc4_add_gap_m56() { acc4_case(0, -56) }
    #[kani::solver(kissat)] #[kani::unwind(6)] #[kani::stub(crate::arithmetic::fast_two_sum, g_fts)] #[kani::stub(TwoFloat::new_add, g_new_add)] #[kani::stub(TwoFloat::new_sub, g_new_sub)] fn acc4_add_gap_m55() { acc4_case(0, -55) }
    #[kani::solver(kissat)] #[kani::unwind(6)] #[kani::stub(crate::arithmetic::fast_two_sum, g_fts)] #[kani::stub(TwoFloat::new_add, g_new_add)] #[kani::stub(TwoFloat::new_sub, g_new_sub)] fn acc4_add_gap_m54() { acc4_case(0, -54) }
    #[kani::solver(kissat)] #[kani::unwind(6)] #[kani::stub(crate::arithmetic::fast_two_sum, g_fts)] #[kani::stub(TwoFloat::new_add, g_new_add)] #[kani::stub(TwoFloat::new_sub, g_new_sub)] fn acc4_add_gap_m53() { acc4_case(0, -53) }
    #[kani::solver(kissat)] #[kani::unwind(6)] #[kani::stub(crate::arithmetic::fast_two_sum, g_fts)] #[kani::stub(TwoFloat::new_add, g_new_add)] #[kani::stub(TwoFloat::new_sub, g_new_sub)] fn acc4_add_gap_m52() { acc4_case(0, -52) }
    #[kani::solver(kissat)] #[kani::unwind(6)] #[kani::stub(crate::arithmetic::fast_two_sum, g_fts)] #[kani::stub(TwoFloat::new_add, g_new_add)] #[kani::stub(TwoFloat::new_sub, g_new_sub)] fn acc4_add_gap_m51() { acc4_case(0, -51) }
    #[kani::solver(kissat)] #[kani::unwind(6)] #[kani::stub(crate::arithmetic::fast_two_sum, g_fts)] #[kani::stub(TwoFloat::new_add, g_new_add)] #[kani::stub(TwoFloat::new_sub, g_new_sub)] fn acc4_add_gap_m50() { acc4_case(0, -50) }
    #[kani::solver(kissat)] #[kani::unwind(6)] #[kani::stub(crate::arithmetic::fast_two_sum, g_fts)] #[kani::stub(TwoFloat::new_add, g_new_add)] #[kani::stub(TwoFloat::new_sub, g_new_sub)] fn acc4_add_gap_m49() { acc4_case(0, -49) }
    #[kani::solver(kissat)] #[kani::unwind(6)] #[kani::stub(crate::arithmetic::fast_two_sum, g_fts)] #[kani::stub(TwoFloat::new_add, g_new_add)] #[kani::stub(TwoFloat::new_sub, g_new_sub)] fn acc4_add_gap_m48() { acc4_case(0, -48) }
    #[kani::solver(kissat)] #[kani::unwind(6)] #[kani::stub(crate::arithmetic::fast_two_sum, g_fts)] #[kani::stub(TwoFloat::new_add, g_new_add)] #[kani::stub(TwoFloat::new_sub, g_new_sub)] fn acc4_add_gap_m47() { acc4_case(0, -47) }
    #[kani::solver(kissat)] #[kani::unwind(6)] #[kani::stub(crate::arithmetic::fast_two_sum, g_fts)] #[kani::stub(TwoFloat::new_add, g_new_add)] #[kani::stub(TwoFloat::new_sub, g_new_sub)] fn acc4_add_gap_m46() { acc4_case(0, -46) }
    #[kani::solver(kissat)] #[kani::unwind(6)] #[kani::stub(crate::arithmetic::fast_two_sum, g_fts)] #[kani::stub(TwoFloat::new_add, g_new_add)] #[kani::stub(TwoFloat::new_sub, g_new_sub)] fn acc4_add_gap_m45() { acc4_case(0, -45) }
    #[kani::solver(kissat)] #[kani::unwind(6)] #[kani::stub(crate::arithmetic::fast_two_sum, g_fts)] #[kani::stub(TwoFloat::new_add, g_new_add)] #[kani::stub(TwoFloat::new_sub, g_new_sub)] fn acc4_add_gap_m44() { acc4_case(0, -44) }
    #[kani::solver(kissat)] #[kani::unwind(6)] #[kani::stub(crate::arithmetic::fast_two_sum, g_fts)] #[kani::stub(TwoFloat::new_add, g_new_add)] #[kani::stub(TwoFloat::new_sub, g_new_sub)] fn acc4_add_gap_m43() { acc4_case(0, -43) }
    #[kani::solver(kissat)] #[kani::unwind(6)] #[kani::stub(crate::arithmetic::fast_two_sum, g_fts)] #[kani::stub(TwoFloat::new_add, g_new_add)] #[kani::stub(TwoFloat::new_sub, g_new_sub)] fn acc4_add_gap_m42() { acc4_case(0, -42) }
    #[kani::solver(kissat)] #[kani::unwind(6)] #[kani::stub(crate::arithmetic::fast_two_sum, g_fts)] #[kani::stub(TwoFloat::new_add, g_new_add)] #[kani::stub(TwoFloat::new_sub, g_new_sub)] fn acc4_add_gap_m41() { acc4_case(0, -41) }
    #[kani::solver(kissat)] #[kani::unwind(6)] #[kani::stub(crate::arithmetic::fast_two_sum, g_fts)] #[kani::stub(TwoFloat::new_add, g_new_add)] #[kani::stub(TwoFloat::new_sub, g_new_sub)] fn acc4_add_gap_m40() { acc4_case(0, -40) }
    #[kani::solver(kissat)] #[kani::unwind(6)] #[kani::stub(crate::arithmetic::fast_two_sum, g_fts)] #[kani::stub(TwoFloat::new_add, g_new_add)] #[kani::stub(TwoFloat::new_sub, g_new_sub)] fn acc4_add_gap_m39() { acc4_case(0, -39) }
    #[kani::solver(kissat)] #[kani::unwind(6)] #[kani::stub(crate::arithmetic::fast_two_sum, g_fts)] #[kani::stub(TwoFloat::new_add, g_new_add)] #[kani::stub(TwoFloat::new_sub, g_new_sub)] fn acc4_add_gap_m38() { acc4_case(0, -38) }
    #[kani::solver(kissat)] #[kani::unwind(6)] #[kani::stub(crate::arithmetic::fast_two_sum, g_fts)] #[kani::stub(TwoFloat::new_add, g_new_add)] #[kani::stub(TwoFloat::new_sub, g_new_sub)] fn acc4_add_gap_m37() { acc4_case(0, -37) }
    #[kani::solver(kissat)] #[kani::unwind(6)] #[kani::stub(crate::arithmetic::fast_two_sum, g_fts)] #[kani::stub(TwoFloat::new_add, g_new_add)] #[kani::stub(TwoFloat::new_sub, g_new_sub)] fn acc4_add_gap_m36() { acc4_case(0, -36) }
    #[kani::solver(kissat)] #[kani::unwind(6)] #[kani::stub(crate::arithmetic::fast_two_sum, g_fts)] #[kani::stub(TwoFloat::new_add, g_new_add)] #[kani::stub(TwoFloat::new_sub, g_new_sub)] fn acc4_add_gap_m35() { acc4_case(0, -35) }
    #[kani::solver(kissat)] #[kani::unwind(6)] #[kani::stub(crate::arithmetic::fast_two_sum, g_fts)] #[kani::stub(TwoFloat::new_add, g_new_add)] #[kani::stub(TwoFloat::new_sub, g_new_sub)] fn acc4_add_gap_m34() { acc4_case(0, -34) }
    #[kani::solver(kissat)] #[kani::unwind(6)] #[kani::stub(crate::arithmetic::fast_two_sum, g_fts)] #[kani::stub(TwoFloat::new_add, g_new_add)] #[kani::stub(TwoFloat::new_sub, g_new_sub)] fn acc4_add_gap_m33() { acc4_case(0, -33) }
    #[kani::solver(kissat)] #[kani::unwind(6)] #[kani::stub(crate::arithmetic::fast_two_sum, g_fts)] #[kani::stub(TwoFloat::new_add, g_new_add)] #[kani::stub(TwoFloat::new_sub, g_new_sub)] fn acc4_add_gap_m32() { acc4_case(0, -32) }
    #[kani::solver(kissat)] #[kani::unwind(6)] #[kani::stub(crate::arithmetic::fast_two_sum, g_fts)] #[kani::stub(TwoFloat::new_add, g_new_add)] #[kani::stub(TwoFloat::new_sub, g_new_sub)] fn acc4_add_gap_m31() { acc4_case(0, -31) }
    #[kani::solver(kissat)] #[kani::unwind(6)] #[kani::stub(crate::arithmetic::fast_two_sum, g_fts)] #[kani::stub(TwoFloat::new_add, g_new_add)] #[kani::stub(TwoFloat::new_sub, g_new_sub)] fn acc4_add_gap_m30() { acc4_case(0, -30) }
    #[kani::solver(kissat)] #[kani::unwind(6)] #[kani::stub(crate::arithmetic::fast_two_sum, g_fts)] #[kani::stub(TwoFloat::new_add, g_new_add)] #[kani::stub(TwoFloat::new_sub, g_new_sub)] fn acc4_add_gap_m29() { acc4_case(0, -29) }
    #[kani::solver(kissat)] #[kani::unwind(6)] #[kani::stub(crate::arithmetic::fast_two_sum, g_fts)] #[kani::stub(TwoFloat::new_add, g_new_add)] #[kani::stub(TwoFloat::new_sub, g_new_sub)] fn acc4_add_gap_m28() { acc4_case(0, -28) }
    #[kani::solver(kissat)] #[kani::unwind(6)] #[kani::stub(crate::arithmetic::fast_two_sum, g_fts)] #[kani::stub(TwoFloat::new_add, g_new_add)] #[kani::stub(TwoFloat::new_sub, g_new_sub)] fn acc4_add_gap_m27() { acc4_case(0, -27) }
    #[kani::solver(kissat)] #[kani::unwind(6)] #[kani::stub(crate::arithmetic::fast_two_sum, g_fts)] #[kani::stub(TwoFloat::new_add, g_new_add)] #[kani::stub(TwoFloat::new_sub, g_new_sub)] fn acc4_add_gap_m26() { acc4_case(0, -26) }
    #[kani::solver(kissat)] #[kani::unwind(6)] #[kani::stub(crate::arithmetic::fast_two_sum, g_fts)] #[kani::stub(TwoFloat::new_add, g_new_add)] #[kani::stub(TwoFloat::new_sub, g_new_sub)] fn acc4_add_gap_m25() { acc4_case(0, -25) }
    #[kani::solver(kissat)] #[kani::unwind(6)] #[kani::stub(crate::arithmetic::fast_two_sum, g_fts)] #[kani::stub(TwoFloat::new_add, g_new_add)] #[kani::stub(TwoFloat::new_sub, g_new_sub)] fn acc4_add_gap_m24() { acc4_case(0, -24) }
    #[kani::solver(kissat)] #[kani::unwind(6)] #[kani::stub(crate::arithmetic::fast_two_sum, g_fts)] #[kani::stub(TwoFloat::new_add, g_new_add)] #[kani::stub(TwoFloat::new_sub, g_new_sub)] fn acc4_add_gap_m23() { acc4_case(0, -23) }
    #[kani::solver(kissat)] #[kani::unwind(6)] #[kani::stub(crate::arithmetic::fast_two_sum, g_fts)] #[kani::stub(TwoFloat::new_add, g_new_add)] #[kani::stub(TwoFloat::new_sub, g_new_sub)] fn acc4_add_gap_m22() { acc4_case(0, -22) }
    #[kani::solver(kissat)] #[kani::unwind(6)] #[kani::stub(crate::arithmetic::fast_two_sum, g_fts)] #[kani::stub(TwoFloat::new_add, g_new_add)] #[kani::stub(TwoFloat::new_sub, g_new_sub)] fn acc4_add_gap_m21() { acc4_case(0, -21) }
    #[kani::solver(kissat)] #[kani::unwind(6)] #[kani::stub(crate::arithmetic::fast_two_sum, g_fts)] #[kani::stub(TwoFloat::new_add, g_new_add)] #[kani::stub(TwoFloat::new_sub, g_new_sub)] fn acc4_add_gap_m20() { acc4_case(0, -20) }
    #[kani::solver(kissat)] #[kani::unwind(6)] #[kani::stub(crate::arithmetic::fast_two_sum, g_fts)] #[kani::stub(TwoFloat::new_add, g_new_add)] #[kani::stub(TwoFloat::new_sub, g_new_sub)] fn acc4_add_gap_m19() { acc4_case(0, -19) }
    #[kani::solver(kissat)] #[kani::unwind(6)] #[kani::stub(crate::arithmetic::fast_two_sum, g_fts)] #[kani::stub(TwoFloat::new_add, g_new_add)] #[kani::stub(TwoFloat::new_sub, g_new_sub)] fn acc4_add_gap_m18() { acc4_case(0, -18) }
    #[kani::solver(kissat)] #[kani::unwind(6)] #[kani::stub(crate::arithmetic::fast_two_sum, g_fts)] #[kani::stub(TwoFloat::new_add, g_new_add)] #[kani::stub(TwoFloat::new_sub, g_new_sub)] fn acc4_add_gap_m17() { acc4_case(0, -17) }
    #[kani::solver(kissat)] #[kani::unwind(6)] #[kani::stub(crate::arithmetic::fast_two_sum, g_fts)] #[kani::stub(TwoFloat::new_add, g_new_add)] #[kani::stub(TwoFloat::new_sub, g_new_sub)] fn acc4_add_gap_m16() { acc4_case(0, -16) }
    #[kani::solver(kissat)] #[kani::unwind(6)] #[kani::stub(crate::arithmetic::fast_two_sum, g_fts)] #[kani::stub(TwoFloat::new_add, g_new_add)] #[kani::stub(TwoFloat::new_sub, g_new_sub)] fn acc4_add_gap_m15() { acc4_case(0, -15) }
    #[kani::solver(kissat)] #[kani::unwind(6)] #[kani::stub(crate::arithmetic::fast_two_sum, g_fts)] #[kani::stub(TwoFloat::new_add, g_new_add)] #[kani::stub(TwoFloat::new_sub, g_new_sub)] fn acc4_add_gap_m14() { acc4_case(0, -14) }
    #[kani::solver(kissat)] #[kani::unwind(6)] #[kani::stub(crate::arithmetic::fast_two_sum, g_fts)] #[kani::stub(TwoFloat::new_add, g_new_add)] #[kani::stub(TwoFloat::new_sub, g_new_sub)] fn acc4_add_gap_m13() { acc4_case(0, -13) }
    #[kani::solver(kissat)] #[kani::unwind(6)] #[kani::stub(crate::arithmetic::fast_two_sum, g_fts)] #[kani::stub(TwoFloat::new_add, g_new_add)] #[kani::stub(TwoFloat::new_sub, g_new_sub)] fn acc4_add_gap_m12() { acc4_case(0, -12) }
    #[kani::solver(kissat)] #[kani::unwind(6)] #[kani::stub(crate::arithmetic::fast_two_sum, g_fts)] #[kani::stub(TwoFloat::new_add, g_new_add)] #[kani::stub(TwoFloat::new_sub, g_new_sub)] fn acc4_add_gap_m11() { acc4_case(0, -11) }
    #[kani::solver(kissat)] #[kani::unwind(6)] #[kani::stub(crate::arithmetic::fast_two_sum, g_fts)] #[kani::stub(TwoFloat::new_add, g_new_add)] #[kani::stub(TwoFloat::new_sub, g_new_sub)] fn acc4_add_gap_m10() { acc4_case(0, -10) }
    #[kani::solver(kissat)] #[kani::unwind(6)] #[kani::stub(crate::arithmetic::fast_two_sum, g_fts)] #[kani::stub(TwoFloat::new_add, g_new_add)] #[kani::stub(TwoFloat::new_sub, g_new_sub)] fn acc4_add_gap_m9() { acc4_case(0, -9) }
    #[kani::solver(kissat)] #[kani::unwind(6)] #[kani::stub(crate::arithmetic::fast_two_sum, g_fts)] #[kani::stub(TwoFloat::new_add, g_new_add)] #[kani::stub(TwoFloat::new_sub, g_new_sub)] fn acc4_add_gap_m8() { acc4_case(0, -8) }
    #[kani::solver(kissat)] #[kani::unwind(6)] #[kani::stub(crate::arithmetic::fast_two_sum, g_fts)] #[kani::stub(TwoFloat::new_add, g_new_add)] #[kani::stub(TwoFloat::new_sub, g_new_sub)] fn acc4_add_gap_m7() { acc4_case(0, -7) }
    #[kani::solver(kissat)] #[kani::unwind(6)] #[kani::stub(crate::arithmetic::fast_two_sum, g_fts)] #[kani::stub(TwoFloat::new_add, g_new_add)] #[kani::stub(TwoFloat::new_sub, g_new_sub)] fn acc4_add_gap_m6() { acc4_case(0, -6) }
    #[kani::solver(kissat)] #[kani::unwind(6)] #[kani::stub(crate::arithmetic::fast_two_sum, g_fts)] #[kani::stub(TwoFloat::new_add, g_new_add)] #[kani::stub(TwoFloat::new_sub, g_new_sub)] fn acc4_add_gap_m5() { acc4_case(0, -5) }
    #[kani::solver(kissat)] #[kani::unwind(6)] #[kani::stub(crate::arithmetic::fast_two_sum, g_fts)] #[kani::stub(TwoFloat::new_add, g_new_add)] #[kani::stub(TwoFloat::new_sub, g_new_sub)] fn acc4_add_gap_m4() { acc4_case(0, -4) }
    #[kani::solver(kissat)] #[kani::unwind(6)] #[kani::stub(crate::arithmetic::fast_two_sum, g_fts)] #[kani::stub(TwoFloat::new_add, g_new_add)] #[kani::stub(TwoFloat::new_sub, g_new_sub)] fn acc4_add_gap_m3() { acc4_case(0, -3) }
    #[kani::solver(kissat)] #[kani::unwind(6)] #[kani::stub(crate::arithmetic::fast_two_sum, g_fts)] #[kani::stub(TwoFloat::new_add, g_new_add)] #[kani::stub(TwoFloat::new_sub, g_new_sub)] fn acc4_add_gap_m2() { acc4_case(0, -2) }
    #[kani::solver(kissat)] #[kani::unwind(6)] #[kani::stub(crate::arithmetic::fast_two_sum, g_fts)] #[kani::stub(TwoFloat::new_add, g_new_add)] #[kani::stub(TwoFloat::new_sub, g_new_sub)] fn acc4_add_gap_m1() { acc4_case(0, -1) }
    #[kani::solver(kissat)] #[kani::unwind(6)] #[kani::stub(crate::arithmetic::fast_two_sum, g_fts)] #[kani::stub(TwoFloat::new_add, g_new_add)] #[kani::stub(TwoFloat::new_sub, g_new_sub)] fn acc4_add_gap_p0() { acc4_case(0, 0) }
    #[kani::solver(kissat)] #[kani::unwind(6)] #[kani::stub(crate::arithmetic::fast_two_sum, g_fts)] #[kani::stub(TwoFloat::new_add, g_new_add)] #[kani::stub(TwoFloat::new_sub, g_new_sub)] fn acc4_add_gap_p1() { acc4_case(0, 1) }
    #[kani::solver(kissat)] #[kani::unwind(6)] #[kani::stub(crate::arithmetic::fast_two_sum, g_fts)] #[kani::stub(TwoFloat::new_add, g_new_add)] #[kani::stub(TwoFloat::new_sub, g_new_sub)] fn acc4_add_gap_p2() { acc4_case(0, 2) }
    #[kani::solver(kissat)] #[kani::unwind(6)] #[kani::stub(crate::arithmetic::fast_two_sum, g_fts)] #[kani::stub(TwoFloat::new_add, g_new_add)] #[kani::stub(TwoFloat::new_sub, g_new_sub)] fn acc4_add_gap_p3() { acc4_case(0, 3) }
    #[kani::solver(kissat)] #[kani::unwind(6)] #[kani::stub(crate::arithmetic::fast_two_sum, g_fts)] #[kani::stub(TwoFloat::new_add, g_new_add)] #[kani::stub(TwoFloat::new_sub, g_new_sub)] fn acc4_add_gap_p4() { acc4_case(0, 4) }
    #[kani::solver(kissat)] #[kani::unwind(6)] #[kani::stub(crate::arithmetic::fast_two_sum, g_fts)] #[kani::stub(TwoFloat::new_add, g_new_add)] #[kani::stub(TwoFloat::new_sub, g_new_sub)] fn acc4_add_gap_p5() { acc4_case(0, 5) }
    #[kani::solver(kissat)] #[kani::unwind(6)] #[kani::stub(crate::arithmetic::fast_two_sum, g_fts)] #[kani::stub(TwoFloat::new_add, g_new_add)] #[kani::stub(TwoFloat::new_sub, g_new_sub)] fn acc4_add_gap_p6() { acc4_case(0, 6) }
    #[kani::solver(kissat)] #[kani::unwind(6)] #[kani::stub(crate::arithmetic::fast_two_sum, g_fts)] #[kani::stub(TwoFloat::new_add, g_new_add)] #[kani::stub(TwoFloat::new_sub, g_new_sub)] fn acc4_add_gap_p7() { acc4_case(0, 7) }
    #[kani::solver(kissat)] #[kani::unwind(6)] #[kani::stub(crate::arithmetic::fast_two_sum, g_fts)] #[kani::stub(TwoFloat::new_add, g_new_add)] #[kani::stub(TwoFloat::new_sub, g_new_sub)] fn acc4_add_gap_p8() { acc4_case(0, 8) }
    #[kani::solver(kissat)] #[kani::unwind(6)] #[kani::stub(crate::arithmetic::fast_two_sum, g_fts)] #[kani::stub(TwoFloat::new_add, g_new_add)] #[kani::stub(TwoFloat::new_sub, g_new_sub)] fn acc4_add_gap_p9() { acc4_case(0, 9) }
    #[kani::solver(kissat)] #[kani::unwind(6)] #[kani::stub(crate::arithmetic::fast_two_sum, g_fts)] #[kani::stub(TwoFloat::new_add, g_new_add)] #[kani::stub(TwoFloat::new_sub, g_new_sub)] fn acc4_add_gap_p10() { acc4_case(0, 10) }
    #[kani::solver(kissat)] #[kani::unwind(6)] #[kani::stub(crate::arithmetic::fast_two_sum, g_fts)] #[kani::stub(TwoFloat::new_add, g_new_add)] #[kani::stub(TwoFloat::new_sub, g_new_sub)] fn acc4_add_gap_p11() { acc4_case(0, 11) }
    #[kani::solver(kissat)] #[kani::unwind(6)] #[kani::stub(crate::arithmetic::fast_two_sum, g_fts)] #[kani::stub(TwoFloat::new_add, g_new_add)] #[kani::stub(TwoFloat::new_sub, g_new_sub)] fn acc4_add_gap_p12() { acc4_case(0, 12) }
    #[kani::solver(kissat)] #[kani::unwind(6)] #[kani::stub(crate::arithmetic::fast_two_sum, g_fts)] #[kani::stub(TwoFloat::new_add, g_new_add)] #[kani::stub(TwoFloat::new_sub, g_new_sub)] fn acc4_add_gap_p13() { acc4_case(0, 13) }
    #[kani::solver(kissat)] #[kani::unwind(6)] #[kani::stub(crate::arithmetic::fast_two_sum, g_fts)] #[kani::stub(TwoFloat::new_add, g_new_add)] #[kani::stub(TwoFloat::new_sub, g_new_sub)] fn acc4_add_gap_p14() { acc4_case(0, 14) }
    #[kani::solver(kissat)] #[kani::unwind(6)] #[kani::stub(crate::arithmetic::fast_two_sum, g_fts)] #[kani::stub(TwoFloat::new_add, g_new_add)] #[kani::stub(TwoFloat::new_sub, g_new_sub)] fn acc4_add_gap_p15() { acc4_case(0, 15) }
    #[kani::solver(kissat)] #[kani::unwind(6)] #[kani::stub(crate::arithmetic::fast_two_sum, g_fts)] #[kani::stub(TwoFloat::new_add, g_new_add)] #[kani::stub(TwoFloat::new_sub, g_new_sub)] fn acc4_add_gap_p16() { acc4_case(0, 16) }
    #[kani::solver(kissat)] #[kani::unwind(6)] #[kani::stub(crate::arithmetic::fast_two_sum, g_fts)] #[kani::stub(TwoFloat::new_add, g_new_add)] #[kani::stub(TwoFloat::new_sub, g_new_sub)] fn acc4_add_gap_p17() { acc4_case(0, 17) }
    #[kani::solver(kissat)] #[kani::unwind(6)] #[kani::stub(crate::arithmetic::fast_two_sum, g_fts)] #[kani::stub(TwoFloat::new_add, g_new_add)] #[kani::stub(TwoFloat::new_sub, g_new_sub)] fn acc4_add_gap_p18() { acc4_case(0, 18) }
    #[kani::solver(kissat)] #[kani::unwind(6)] #[kani::stub(crate::arithmetic::fast_two_sum, g_fts)] #[kani::stub(TwoFloat::new_add, g_new_add)] #[kani::stub(TwoFloat::new_sub, g_new_sub)] fn acc4_add_gap_p19() { acc4_case(0, 19) }
    #[kani::solver(kissat)] #[kani::unwind(6)] #[kani::stub(crate::arithmetic::fast_two_sum, g_fts)] #[kani::stub(TwoFloat::new_add, g_new_add)] #[kani::stub(TwoFloat::new_sub, g_new_sub)] fn acc4_add_gap_p20() { acc4_case(0, 20) }
    #[kani::solver(kissat)] #[kani::unwind(6)] #[kani::stub(crate::arithmetic::fast_two_sum, g_fts)] #[kani::stub(TwoFloat::new_add, g_new_add)] #[kani::stub(TwoFloat::new_sub, g_new_sub)] fn acc4_add_gap_p21() { acc4_case(0, 21) }
    #[kani::solver(kissat)] #[kani::unwind(6)] #[kani::stub(crate::arithmetic::fast_two_sum, g_fts)] #[kani::stub(TwoFloat::new_add, g_new_add)] #[kani::stub(TwoFloat::new_sub, g_new_sub)] fn acc4_add_gap_p22() { acc4_case(0, 22) }
    #[kani::solver(kissat)] #[kani::unwind(6)] #[kani::stub(crate::arithmetic::fast_two_sum, g_fts)] #[kani::stub(TwoFloat::new_add, g_new_add)] #[kani::stub(TwoFloat::new_sub, g_new_sub)] fn acc4_add_gap_p23() { acc4_case(0, 23) }
    #[kani::solver(kissat)] #[kani::unwind(6)] #[kani::stub(crate::arithmetic::fast_two_sum, g_fts)] #[kani::stub(TwoFloat::new_add, g_new_add)] #[kani::stub(TwoFloat::new_sub, g_new_sub)] fn acc4_add_gap_p24() { acc4_case(0, 24) }
    #[kani::solver(kissat)] #[kani::unwind(6)] #[kani::stub(crate::arithmetic::fast_two_sum, g_fts)] #[kani::stub(TwoFloat::new_add, g_new_add)] #[kani::stub(TwoFloat::new_sub, g_new_sub)] fn acc4_add_gap_p25() { acc4_case(0, 25) }
    #[kani::solver(kissat)] #[kani::unwind(6)] #[kani::stub(crate::arithmetic::fast_two_sum, g_fts)] #[kani::stub(TwoFloat::new_add, g_new_add)] #[kani::stub(TwoFloat::new_sub, g_new_sub)] fn acc4_add_gap_p26() { acc4_case(0, 26) }
    #[kani::solver(kissat)] #[kani::unwind(6)] #[kani::stub(crate::arithmetic::fast_two_sum, g_fts)] #[kani::stub(TwoFloat::new_add, g_new_add)] #[kani::stub(TwoFloat::new_sub, g_new_sub)] fn acc4_add_gap_p27() { acc4_case(0, 27) }
    #[kani::solver(kissat)] #[kani::unwind(6)] #[kani::stub(crate::arithmetic::fast_two_sum, g_fts)] #[kani::stub(TwoFloat::new_add, g_new_add)] #[kani::stub(TwoFloat::new_sub, g_new_sub)] fn acc4_add_gap_p28() { acc4_case(0, 28) }
    #[kani::solver(kissat)] #[kani::unwind(6)] #[kani::stub(crate::arithmetic::fast_two_sum, g_fts)] #[kani::stub(TwoFloat::new_add, g_new_add)] #[kani::stub(TwoFloat::new_sub, g_new_sub)] fn acc4_add_gap_p29() { acc4_case(0, 29) }
    #[kani::solver(kissat)] #[kani::unwind(6)] #[kani::stub(crate::arithmetic::fast_two_sum, g_fts)] #[kani::stub(TwoFloat::new_add, g_new_add)] #[kani::stub(TwoFloat::new_sub, g_new_sub)] fn acc4_add_gap_p30() { acc4_case(0, 30) }
    #[kani::solver(kissat)] #[kani::unwind(6)] #[kani::stub(crate::arithmetic::fast_two_sum, g_fts)] #[kani::stub(TwoFloat::new_add, g_new_add)] #[kani::stub(TwoFloat::new_sub, g_new_sub)] fn acc4_add_gap_p31() { acc4_case(0, 31) }
    #[kani::solver(kissat)] #[kani::unwind(6)] #[kani::stub(crate::arithmetic::fast_two_sum, g_fts)] #[kani::stub(TwoFloat::new_add, g_new_add)] #[kani::stub(TwoFloat::new_sub, g_new_sub)] fn acc4_add_gap_p32() { acc4_case(0, 32) }
    #[kani::solver(kissat)] #[kani::unwind(6)] #[kani::stub(crate::arithmetic::fast_two_sum, g_fts)] #[kani::stub(TwoFloat::new_add, g_new_add)] #[kani::stub(TwoFloat::new_sub, g_new_sub)] fn acc4_add_gap_p33() { acc4_case(0, 33) }
    #[kani::solver(kissat)] #[kani::unwind(6)] #[kani::stub(crate::arithmetic::fast_two_sum, g_fts)] #[kani::stub(TwoFloat::new_add, g_new_add)] #[kani::stub(TwoFloat::new_sub, g_new_sub)] fn acc4_add_gap_p34() { acc4_case(0, 34) }
    #[kani::solver(kissat)] #[kani::unwind(6)] #[kani::stub(crate::arithmetic::fast_two_sum, g_fts)] #[kani::stub(TwoFloat::new_add, g_new_add)] #[kani::stub(TwoFloat::new_sub, g_new_sub)] fn acc4_add_gap_p35() { acc4_case(0, 35) }
    #[kani::solver(kissat)] #[kani::unwind(6)] #[kani::stub(crate::arithmetic::fast_two_sum, g_fts)] #[kani::stub(TwoFloat::new_add, g_new_add)] #[kani::stub(TwoFloat::new_sub, g_new_sub)] fn acc4_add_gap_p36() { acc4_case(0, 36) }
    #[kani::solver(kissat)] #[kani::unwind(6)] #[kani::stub(crate::arithmetic::fast_two_sum, g_fts)] #[kani::stub(TwoFloat::new_add, g_new_add)] #[kani::stub(TwoFloat::new_sub, g_new_sub)] fn acc4_add_gap_p37() { acc4_case(0, 37) }
    #[kani::solver(kissat)] #[kani::unwind(6)] #[kani::stub(crate::arithmetic::fast_two_sum, g_fts)] #[kani::stub(TwoFloat::new_add, g_new_add)] #[kani::stub(TwoFloat::new_sub, g_new_sub)] fn acc4_add_gap_p38() { acc4_case(0, 38) }
    #[kani::solver(kissat)] #[kani::unwind(6)] #[kani::stub(crate::arithmetic::fast_two_sum, g_fts)] #[kani::stub(TwoFloat::new_add, g_new_add)] #[kani::stub(TwoFloat::new_sub, g_new_sub)] fn acc4_add_gap_p39() { acc4_case(0, 39) }
    #[kani::solver(kissat)] #[kani::unwind(6)] #[kani::stub(crate::arithmetic::fast_two_sum, g_fts)] #[kani::stub(TwoFloat::new_add, g_new_add)] #[kani::stub(TwoFloat::new_sub, g_new_sub)] fn acc4_add_gap_p40() { acc4_case(0, 40) }
    #[kani::solver(kissat)] #[kani::unwind(6)] #[kani::stub(crate::arithmetic::fast_two_sum, g_fts)] #[kani::stub(TwoFloat::new_add, g_new_add)] #[kani::stub(TwoFloat::new_sub, g_new_sub)] fn acc4_add_gap_p41() { acc4_case(0, 41) }
    #[kani::solver(kissat)] #[kani::unwind(6)] #[kani::stub(crate::arithmetic::fast_two_sum, g_fts)] #[kani::stub(TwoFloat::new_add, g_new_add)] #[kani::stub(TwoFloat::new_sub, g_new_sub)] fn acc4_add_gap_p42() { acc4_case(0, 42) }
    #[kani::solver(kissat)] #[kani::unwind(6)] #[kani::stub(crate::arithmetic::fast_two_sum, g_fts)] #[kani::stub(TwoFloat::new_add, g_new_add)] #[kani::stub(TwoFloat::new_sub, g_new_sub)] fn acc4_add_gap_p43() { acc4_case(0, 43) }
    #[kani::solver(kissat)] #[kani::unwind(6)] #[kani::stub(crate::arithmetic::fast_two_sum, g_fts)] #[kani::stub(TwoFloat::new_add, g_new_add)] #[kani::stub(TwoFloat::new_sub, g_new_sub)] fn acc4_add_gap_p44() { acc4_case(0, 44) }
    #[kani::solver(kissat)] #[kani::unwind(6)] #[kani::stub(crate::arithmetic::fast_two_sum, g_fts)] #[kani::stub(TwoFloat::new_add, g_new_add)] #[kani::stub(TwoFloat::new_sub, g_new_sub)] fn acc4_add_gap_p45() { acc4_case(0, 45) }
    #[kani::solver(kissat)] #[kani::unwind(6)] #[kani::stub(crate::arithmetic::fast_two_sum, g_fts)] #[kani::stub(TwoFloat::new_add, g_new_add)] #[kani::stub(TwoFloat::new_sub, g_new_sub)] fn acc4_add_gap_p46() { acc4_case(0, 46) }
    #[kani::solver(kissat)] #[kani::unwind(6)] #[kani::stub(crate::arithmetic::fast_two_sum, g_fts)] #[kani::stub(TwoFloat::new_add, g_new_add)] #[kani::stub(TwoFloat::new_sub, g_new_sub)] fn acc4_add_gap_p47() { acc4_case(0, 47) }
    #[kani::solver(kissat)] #[kani::unwind(6)] #[kani::stub(crate::arithmetic::fast_two_sum, g_fts)] #[kani::stub(TwoFloat::new_add, g_new_add)] #[kani::stub(TwoFloat::new_sub, g_new_sub)] fn acc4_add_gap_p48() { acc4_case(0, 48) }
    #[kani::solver(kissat)] #[kani::unwind(6)] #[kani::stub(crate::arithmetic::fast_two_sum, g_fts)] #[kani::stub(TwoFloat::new_add, g_new_add)] #[kani::stub(TwoFloat::new_sub, g_new_sub)] fn acc4_add_gap_p49() { acc4_case(0, 49) }
    #[kani::solver(kissat)] #[kani::unwind(6)] #[kani::stub(crate::arithmetic::fast_two_sum, g_fts)] #[kani::stub(TwoFloat::new_add, g_new_add)] #[kani::stub(TwoFloat::new_sub, g_new_sub)] fn acc4_add_gap_p50() { acc4_case(0, 50) }
    #[kani::solver(kissat)] #[kani::unwind(6)] #[kani::stub(crate::arithmetic::fast_two_sum, g_fts)] #[kani::stub(TwoFloat::new_add, g_new_add)] #[kani::stub(TwoFloat::new_sub, g_new_sub)] fn acc4_add_gap_p51() { acc4_case(0, 51) }
    #[kani::solver(kissat)] #[kani::unwind(6)] #[kani::stub(crate::arithmetic::fast_two_sum, g_fts)] #[kani::stub(TwoFloat::new_add, g_new_add)] #[kani::stub(TwoFloat::new_sub, g_new_sub)] fn acc4_add_gap_p52() { acc4_case(0, 52) }
    #[kani::solver(kissat)] #[kani::unwind(6)] #[kani::stub(crate::arithmetic::fast_two_sum, g_fts)] #[kani::stub(TwoFloat::new_add, g_new_add)] #[kani::stub(TwoFloat::new_sub, g_new_sub)] fn acc4_add_gap_p53() { acc4_case(0, 53) }
    #[kani::solver(kissat)] #[kani::unwind(6)] #[kani::stub(crate::arithmetic::fast_two_sum, g_fts)] #[kani::stub(TwoFloat::new_add, g_new_add)] #[kani::stub(TwoFloat::new_sub, g_new_sub)] fn acc4_add_gap_p54() { acc4_case(0, 54) }
    #[kani::solver(kissat)] #[kani::unwind(6)] #[kani::stub(crate::arithmetic::fast_two_sum, g_fts)] #[kani::stub(TwoFloat::new_add, g_new_add)] #[kani::stub(TwoFloat::new_sub, g_new_sub)] fn acc4_add_gap_p55() { acc4_case(0, 55) }
    #[kani::solver(kissat)] #[kani::unwind(6)] #[kani::stub(crate::arithmetic::fast_two_sum, g_fts)] #[kani::stub(TwoFloat::new_add, g_new_add)] #[kani::stub(TwoFloat::new_sub, g_new_sub)] fn acc4_add_gap_p56() { acc4_case(0, 56) }
    #[kani::solver(kissat)] #[kani::unwind(6)] #[kani::stub(crate::arithmetic::fast_two_sum, g_fts)] #[kani::stub(TwoFloat::new_add, g_new_add)] #[kani::stub(TwoFloat::new_sub, g_new_sub)] fn acc4_add_gap_p57() { acc4_case(0, 57) }
    #[kani::solver(kissat)] #[kani::unwind(6)] #[kani::stub(crate::arithmetic::fast_two_sum, g_fts)] #[kani::stub(TwoFloat::new_add, g_new_add)] #[kani::stub(TwoFloat::new_sub, g_new_sub)] fn acc4_add_gap_p58() { acc4_case(0, 58) }
    #[kani::solver(kissat)] #[kani::unwind(6)] #[kani::stub(crate::arithmetic::fast_two_sum, g_fts)] #[kani::stub(TwoFloat::new_add, g_new_add)] #[kani::stub(TwoFloat::new_sub, g_new_sub)] fn acc4_add_gap_p59() { acc4_case(0, 59) }
    #[kani::solver(kissat)] #[kani::unwind(6)] #[kani::stub(crate::arithmetic::fast_two_sum, g_fts)] #[kani::stub(TwoFloat::new_add, g_new_add)] #[kani::stub(TwoFloat::new_sub, g_new_sub)] fn acc4_add_gap_p60() { acc4_case(0, 60) }
    #[kani::solver(kissat)] #[kani::unwind(6)] #[kani::stub(crate::arithmetic::fast_two_sum, g_fts)] #[kani::stub(TwoFloat::new_add, g_new_add)] #[kani::stub(TwoFloat::new_sub, g_new_sub)] fn acc4_add_far_p() { acc4_case(0, 1000) }
    #[kani::solver(kissat)] #[kani::unwind(6)] #[kani::stub(crate::arithmetic::fast_two_sum, g_fts)] #[kani::stub(TwoFloat::new_add, g_new_add)] #[kani::stub(TwoFloat::new_sub, g_new_sub)] fn acc4_add_far_m() { acc4_case(0, -1000) }
    #[kani::solver(kissat)] #[kani::unwind(6)] #[kani::stub(crate::arithmetic::fast_two_sum, g_fts)] #[kani::stub(TwoFloat::new_add, g_new_add)] #[kani::stub(TwoFloat::new_sub, g_new_sub)] fn acc4_sub_gap_m60() { acc4_case(1, -60) }
    #[kani::solver(kissat)] #[kani::unwind(6)] #[kani::stub(crate::arithmetic::fast_two_sum, g_fts)] #[kani::stub(TwoFloat::new_add, g_new_add)] #[kani::stub(TwoFloat::new_sub, g_new_sub)] fn acc4_sub_gap_m59() { acc4_case(1, -59) }
    #[kani::solver(kissat)] #[kani::unwind(6)] #[kani::stub(crate::arithmetic::fast_two_sum, g_fts)] #[kani::stub(TwoFloat::new_add, g_new_add)] #[kani::stub(TwoFloat::new_sub, g_new_sub)] fn acc4_sub_gap_m58() { acc4_case(1, -58) }
    #[kani::solver(kissat)] #[kani::unwind(6)] #[kani::stub(crate::arithmetic::fast_two_sum, g_fts)] #[kani::stub(TwoFloat::new_add, g_new_add)] #[kani::stub(TwoFloat::new_sub, g_new_sub)] fn acc4_sub_gap_m57() { acc4_case(1, -57) }
    #[kani::solver(kissat)] #[kani::unwind(6)] #[kani::stub(crate::arithmetic::fast_two_sum, g_fts)] #[kani::stub(TwoFloat::new_add, g_new_add)] #[kani::stub(TwoFloat::new_sub, g_new_sub)] fn acc4_sub_gap_m56() { acc4_case(1, -56) }
    #[kani::solver(kissat)] #[kani::unwind(6)] #[kani::stub(crate::arithmetic::fast_two_sum, g_fts)] #[kani::stub(TwoFloat::new_add, g_new_add)] #[kani::stub(TwoFloat::new_sub, g_new_sub)] fn acc4_sub_gap_m55() { acc4_case(1, -55) }
    #[kani::solver(kissat)] #[kani::unwind(6)] #[kani::stub(crate::arithmetic::fast_two_sum, g_fts)] #[kani::stub(TwoFloat::new_add, g_new_add)] #[kani::stub(TwoFloat::new_sub, g_new_sub)] fn acc4_sub_gap_m54() { acc4_case(1, -54) }
    #[kani::solver(kissat)] #[kani::unwind(6)] #[kani::stub(crate::arithmetic::fast_two_sum, g_fts)] #[kani::stub(TwoFloat::new_add, g_new_add)] #[kani::stub(TwoFloat::new_sub, g_new_sub)] fn acc4_sub_gap_m53() { acc4_case(1, -53) }
    #[kani::solver(kissat)] #[kani::unwind(6)] #[kani::stub(crate::arithmetic::fast_two_sum, g_fts)] #[kani::stub(TwoFloat::new_add, g_new_add)] #[kani::stub(TwoFloat::new_sub, g_new_sub)] fn acc4_sub_gap_m52() { acc4_case(1, -52) }
    #[kani::solver(kissat)] #[kani::unwind(6)] #[kani::stub(crate::arithmetic::fast_two_sum, g_fts)] #[kani::stub(TwoFloat::new_add, g_new_add)] #[kani::stub(TwoFloat::new_sub, g_new_sub)] fn acc4_sub_gap_m51() { acc4_case(1, -51) }
    #[kani::solver(kissat)] #[kani::unwind(6)] #[kani::stub(crate::arithmetic::fast_two_sum, g_fts)] #[kani::stub(TwoFloat::new_add, g_new_add)] #[kani::stub(TwoFloat::new_sub, g_new_sub)] fn acc4_sub_gap_m50() { acc4_case(1, -50) }
    #[kani::solver(kissat)] #[kani::unwind(6)] #[kani::stub(crate::arithmetic::fast_two_sum, g_fts)] #[kani::stub(TwoFloat::new_add, g_new_add)] #[kani::stub(TwoFloat::new_sub, g_new_sub)] fn acc4_sub_gap_m49() { acc4_case(1, -49) }
    #[kani::solver(kissat)] #[kani::unwind(6)] #[kani::stub(crate::arithmetic::fast_two_sum, g_fts)] #[kani::stub(TwoFloat::new_add, g_new_add)] #[kani::stub(TwoFloat::new_sub, g_new_sub)] fn acc4_sub_gap_m48() { acc4_case(1, -48) }
    #[kani::solver(kissat)] #[kani::unwind(6)] #[kani::stub(crate::arithmetic::fast_two_sum, g_fts)] #[kani::stub(TwoFloat::new_add, g_new_add)] #[kani::stub(TwoFloat::new_sub, g_new_sub)] fn acc4_sub_gap_m47() { acc4_case(1, -47) }
    #[kani::solver(kissat)] #[kani::unwind(6)] #[kani::stub(crate::arithmetic::fast_two_sum, g_fts)] #[kani::stub(TwoFloat::new_add, g_new_add)] #[kani::stub(TwoFloat::new_sub, g_new_sub)] fn acc4_sub_gap_m46() { acc4_case(1, -46) }
    #[kani::solver(kissat)] #[kani::unwind(6)] #[kani::stub(crate::arithmetic::fast_two_sum, g_fts)] #[kani::stub(TwoFloat::new_add, g_new_add)] #[kani::stub(TwoFloat::new_sub, g_new_sub)] fn acc4_sub_gap_m45() { acc4_case(1, -45) }
    #[kani::solver(kissat)] #[kani::unwind(6)] #[kani::stub(crate::arithmetic::fast_two_sum, g_fts)] #[kani::stub(TwoFloat::new_add, g_new_add)] #[kani::stub(TwoFloat::new_sub, g_new_sub)] fn acc4_sub_gap_m44() { acc4_case(1, -44) }
    #[kani::solver(kissat)] #[kani::unwind(6)] #[kani::stub(crate::arithmetic::fast_two_sum, g_fts)] #[kani::stub(TwoFloat::new_add, g_new_add)] #[kani::stub(TwoFloat::new_sub, g_new_sub)] fn acc4_sub_gap_m43() { acc4_case(1, -43) }
    #[kani::solver(kissat)] #[kani::unwind(6)] #[kani::stub(crate::arithmetic::fast_two_sum, g_fts)] #[kani::stub(TwoFloat::new_add, g_new_add)] #[kani::stub(TwoFloat::new_sub, g_new_sub)] fn acc4_sub_gap_m42() { acc4_case(1, -42) }
    #[kani::solver(kissat)] #[kani::unwind(6)] #[kani::stub(crate::arithmetic::fast_two_sum, g_fts)] #[kani::stub(TwoFloat::new_add, g_new_add)] #[kani::stub(TwoFloat::new_sub, g_new_sub)] fn acc4_sub_gap_m41() { acc4_case(1, -41) }
    #[kani::solver(kissat)] #[kani::unwind(6)] #[kani::stub(crate::arithmetic::fast_two_sum, g_fts)] #[kani::stub(TwoFloat::new_add, g_new_add)] #[kani::stub(TwoFloat::new_sub, g_new_sub)] fn acc4_sub_gap_m40() { acc4_case(1, -40) }
    #[kani::solver(kissat)] #[kani::unwind(6)] #[kani::stub(crate::arithmetic::fast_two_sum, g_fts)] #[kani::stub(TwoFloat::new_add, g_new_add)] #[kani::stub(TwoFloat::new_sub, g_new_sub)] fn acc4_sub_gap_m39() { acc4_case(1, -39) }
    #[kani::solver(kissat)] #[kani::unwind(6)] #[kani::stub(crate::arithmetic::fast_two_sum, g_fts)] #[kani::stub(TwoFloat::new_add, g_new_add)] #[kani::stub(TwoFloat::new_sub, g_new_sub)] fn acc4_sub_gap_m38() { acc4_case(1, -38) }
    #[kani::solver(kissat)] #[kani::unwind(6)] #[kani::stub(crate::arithmetic::fast_two_sum, g_fts)] #[kani::stub(TwoFloat::new_add, g_new_add)] #[kani::stub(TwoFloat::new_sub, g_new_sub)] fn acc4_sub_gap_m37() { acc4_case(1, -37) }
    #[kani::solver(kissat)] #[kani::unwind(6)] #[kani::stub(crate::arithmetic::fast_two_sum, g_fts)] #[kani::stub(TwoFloat::new_add, g_new_add)] #[kani::stub(TwoFloat::new_sub, g_new_sub)] fn acc4_sub_gap_m36() { acc4_case(1, -36) }
    #[kani::solver(kissat)] #[kani::unwind(6)] #[kani::stub(crate::arithmetic::fast_two_sum, g_fts)] #[kani::stub(TwoFloat::new_add, g_new_add)] #[kani::stub(TwoFloat::new_sub, g_new_sub)] fn acc4_sub_gap_m35() { acc4_case(1, -35) }
    #[kani::solver(kissat)] #[kani::unwind(6)] #[kani::stub(crate::arithmetic::fast_two_sum, g_fts)] #[kani::stub(TwoFloat::new_add, g_new_add)] #[kani::stub(TwoFloat::new_sub, g_new_sub)] fn acc4_sub_gap_m34() { acc4_case(1, -34) }
    #[kani::solver(kissat)] #[kani::unwind(6)] #[kani::stub(crate::arithmetic::fast_two_sum, g_fts)] #[kani::stub(TwoFloat::new_add, g_new_add)] #[kani::stub(TwoFloat::new_sub, g_new_sub)] fn acc4_sub_gap_m33() { acc4_case(1, -33) }
    #[kani::solver(kissat)] #[kani::unwind(6)] #[kani::stub(crate::arithmetic::fast_two_sum, g_fts)] #[kani::stub(TwoFloat::new_add, g_new_add)] #[kani::stub(TwoFloat::new_sub, g_new_sub)] fn acc4_sub_gap_m32() { acc4_case(1, -32) }
    #[kani::solver(kissat)] #[kani::unwind(6)] #[kani::stub(crate::arithmetic::fast_two_sum, g_fts)] #[kani::stub(TwoFloat::new_add, g_new_add)] #[kani::stub(TwoFloat::new_sub, g_new_sub)] fn acc4_sub_gap_m31() { acc4_case(1, -31) }
    #[kani::solver(kissat)] #[kani::unwind(6)] #[kani::stub(crate::arithmetic::fast_two_sum, g_fts)] #[kani::stub(TwoFloat::new_add, g_new_add)] #[kani::stub(TwoFloat::new_sub, g_new_sub)] fn acc4_sub_gap_m30() { acc4_case(1, -30) }
    #[kani::solver(kissat)] #[kani::unwind(6)] #[kani::stub(crate::arithmetic::fast_two_sum, g_fts)] #[kani::stub(TwoFloat::new_add, g_new_add)] #[kani::stub(TwoFloat::new_sub, g_new_sub)] fn acc4_sub_gap_m29() { acc4_case(1, -29) }
    #[kani::solver(kissat)] #[kani::unwind(6)] #[kani::stub(crate::arithmetic::fast_two_sum, g_fts)] #[kani::stub(TwoFloat::new_add, g_new_add)] #[kani::stub(TwoFloat::new_sub, g_new_sub)] fn acc4_sub_gap_m28() { acc4_case(1, -28) }
    #[kani::solver(kissat)] #[kani::unwind(6)] #[kani::stub(crate::arithmetic::fast_two_sum, g_fts)] #[kani::stub(TwoFloat::new_add, g_new_add)] #[kani::stub(TwoFloat::new_sub, g_new_sub)] fn acc4_sub_gap_m27() { acc4_case(1, -27) }
    #[kani::solver(kissat)] #[kani::unwind(6)] #[kani::stub(crate::arithmetic::fast_two_sum, g_fts)] #[kani::stub(TwoFloat::new_add, g_new_add)] #[kani::stub(TwoFloat::new_sub, g_new_sub)] fn acc4_sub_gap_m26() { acc4_case(1, -26) }
    #[kani::solver(kissat)] #[kani::unwind(6)] #[kani::stub(crate::arithmetic::fast_two_sum, g_fts)] #[kani::stub(TwoFloat::new_add, g_new_add)] #[kani::stub(TwoFloat::new_sub, g_new_sub)] fn acc4_sub_gap_m25() { acc4_case(1, -25) }
    #[kani::solver(kissat)] #[kani::unwind(6)] #[kani::stub(crate::arithmetic::fast_two_sum, g_fts)] #[kani::stub(TwoFloat::new_add, g_new_add)] #[kani::stub(TwoFloat::new_sub, g_new_sub)] fn acc4_sub_gap_m24() { acc4_case(1, -24) }
    #[kani::solver(kissat)] #[kani::unwind(6)] #[kani::stub(crate::arithmetic::fast_two_sum, g_fts)] #[kani::stub(TwoFloat::new_add, g_new_add)] #[kani::stub(TwoFloat::new_sub, g_new_sub)] fn acc4_sub_gap_m23() { acc4_case(1, -23) }
    #[kani::solver(kissat)] #[kani::unwind(6)] #[kani::stub(crate::arithmetic::fast_two_sum, g_fts)] #[kani::stub(TwoFloat::new_add, g_new_add)] #[kani::stub(TwoFloat::new_sub, g_new_sub)] fn acc4_sub_gap_m22() { acc4_case(1, -22) }
    #[kani::solver(kissat)] #[kani::unwind(6)] #[kani::stub(crate::arithmetic::fast_two_sum, g_fts)] #[kani::stub(TwoFloat::new_add, g_new_add)] #[kani::stub(TwoFloat::new_sub, g_new_sub)] fn acc4_sub_gap_m21() { acc4_case(1, -21) }
    #[kani::solver(kissat)] #[kani::unwind(6)] #[kani::stub(crate::arithmetic::fast_two_sum, g_fts)] #[kani::stub(TwoFloat::new_add, g_new_add)] #[kani::stub(TwoFloat::new_sub, g_new_sub)] fn acc4_sub_gap_m20() { acc4_case(1, -20) }
    #[kani::solver(kissat)] #[kani::unwind(6)] #[kani::stub(crate::arithmetic::fast_two_sum, g_fts)] #[kani::stub(TwoFloat::new_add, g_new_add)] #[kani::stub(TwoFloat::new_sub, g_new_sub)] fn acc4_sub_gap_m19() { acc4_case(1, -19) }
    #[kani::solver(kissat)] #[kani::unwind(6)] #[kani::stub(crate::arithmetic::fast_two_sum, g_fts)] #[kani::stub(TwoFloat::new_add, g_new_add)] #[kani::stub(TwoFloat::new_sub, g_new_sub)] fn acc4_sub_gap_m18() { acc4_case(1, -18) }
    #[kani::solver(kissat)] #[kani::unwind(6)] #[kani::stub(crate::arithmetic::fast_two_sum, g_fts)] #[kani::stub(TwoFloat::new_add, g_new_add)] #[kani::stub(TwoFloat::new_sub, g_new_sub)] fn acc4_sub_gap_m17() { acc4_case(1, -17) }
    #[kani::solver(kissat)] #[kani::unwind(6)] #[kani::stub(crate::arithmetic::fast_two_sum, g_fts)] #[kani::stub(TwoFloat::new_add, g_new_add)] #[kani::stub(TwoFloat::new_sub, g_new_sub)] fn acc4_sub_gap_m16() { acc4_case(1, -16) }
    #[kani::solver(kissat)] #[kani::unwind(6)] #[kani::stub(crate::arithmetic::fast_two_sum, g_fts)] #[kani::stub(TwoFloat::new_add, g_new_add)] #[kani::stub(TwoFloat::new_sub, g_new_sub)] fn acc4_sub_gap_m15() { acc4_case(1, -15) }
    #[kani::solver(kissat)] #[kani::unwind(6)] #[kani::stub(crate::arithmetic::fast_two_sum, g_fts)] #[kani::stub(TwoFloat::new_add, g_new_add)] #[kani::stub(TwoFloat::new_sub, g_new_sub)] fn acc4_sub_gap_m14() { acc4_case(1, -14) }
    #[kani::solver(kissat)] #[kani::unwind(6)] #[kani::stub(crate::arithmetic::fast_two_sum, g_fts)] #[kani::stub(TwoFloat::new_add, g_new_add)] #[kani::stub(TwoFloat::new_sub, g_new_sub)] fn acc4_sub_gap_m13() { acc4_case(1, -13) }
    #[kani::solver(kissat)] #[kani::unwind(6)] #[kani::stub(crate::arithmetic::fast_two_sum, g_fts)] #[kani::stub(TwoFloat::new_add, g_new_add)] #[kani::stub(TwoFloat::new_sub, g_new_sub)] fn acc4_sub_gap_m12() { acc4_case(1, -12) }
    #[kani::solver(kissat)] #[kani::unwind(6)] #[kani::stub(crate::arithmetic::fast_two_sum, g_fts)] #[kani::stub(TwoFloat::new_add, g_new_add)] #[kani::stub(TwoFloat::new_sub, g_new_sub)] fn acc4_sub_gap_m11() { acc4_case(1, -11) }
    #[kani::solver(kissat)] #[kani::unwind(6)] #[kani::stub(crate::arithmetic::fast_two_sum, g_fts)] #[kani::stub(TwoFloat::new_add, g_new_add)] #[kani::stub(TwoFloat::new_sub, g_new_sub)] fn acc4_sub_gap_m10() { acc4_case(1, -10) }
    #[kani::solver(kissat)] #[kani::unwind(6)] #[kani::stub(crate::arithmetic::fast_two_sum, g_fts)] #[kani::stub(TwoFloat::new_add, g_new_add)] #[kani::stub(TwoFloat::new_sub, g_new_sub)] fn acc4_sub_gap_m9() { acc4_case(1, -9) }
    #[kani::solver(kissat)] #[kani::unwind(6)] #[kani::stub(crate::arithmetic::fast_two_sum, g_fts)] #[kani::stub(TwoFloat::new_add, g_new_add)] #[kani::stub(TwoFloat::new_sub, g_new_sub)] fn acc4_sub_gap_m8() { acc4_case(1, -8) }
    #[kani::solver(kissat)] #[kani::unwind(6)] #[kani::stub(crate::arithmetic::fast_two_sum, g_fts)] #[kani::stub(TwoFloat::new_add, g_new_add)] #[kani::stub(TwoFloat::new_sub, g_new_sub)] fn acc4_sub_gap_m7() { acc4_case(1, -7) }
    #[kani::solver(kissat)] #[kani::unwind(6)] #[kani::stub(crate::arithmetic::fast_two_sum, g_fts)] #[kani::stub(TwoFloat::new_add, g_new_add)] #[kani::stub(TwoFloat::new_sub, g_new_sub)] fn acc4_sub_gap_m6() { acc4_case(1, -6) }
    #[kani::solver(kissat)] #[kani::unwind(6)] #[kani::stub(crate::arithmetic::fast_two_sum, g_fts)] #[kani::stub(TwoFloat::new_add, g_new_add)] #[kani::stub(TwoFloat::new_sub, g_new_sub)] fn acc4_sub_gap_m5() { acc4_case(1, -5) }
    #[kani::solver(kissat)] #[kani::unwind(6)] #[kani::stub(crate::arithmetic::fast_two_sum, g_fts)] #[kani::stub(TwoFloat::new_add, g_new_add)] #[kani::stub(TwoFloat::new_sub, g_new_sub)] fn acc4_sub_gap_m4() { acc4_case(1, -4) }
    #[kani::solver(kissat)] #[kani::unwind(6)] #[kani::stub(crate::arithmetic::fast_two_sum, g_fts)] #[kani::stub(TwoFloat::new_add, g_new_add)] #[kani::stub(TwoFloat::new_sub, g_new_sub)] fn acc4_sub_gap_m3() { acc4_case(1, -3) }
    #[kani::solver(kissat)] #[kani::unwind(6)] #[kani::stub(crate::arithmetic::fast_two_sum, g_fts)] #[kani::stub(TwoFloat::new_add, g_new_add)] #[kani::stub(TwoFloat::new_sub, g_new_sub)] fn acc4_sub_gap_m2() { acc4_case(1, -2) }
    #[kani::solver(kissat)] #[kani::unwind(6)] #[kani::stub(crate::arithmetic::fast_two_sum, g_fts)] #[kani::stub(TwoFloat::new_add, g_new_add)] #[kani::stub(TwoFloat::new_sub, g_new_sub)] fn acc4_sub_gap_m1() { acc4_case(1, -1) }
    #[kani::solver(kissat)] #[kani::unwind(6)] #[kani::stub(crate::arithmetic::fast_two_sum, g_fts)] #[kani::stub(TwoFloat::new_add, g_new_add)] #[kani::stub(TwoFloat::new_sub, g_new_sub)] fn acc4_sub_gap_p0() { acc4_case(1, 0) }
    #[kani::solver(kissat)] #[kani::unwind(6)] #[kani::stub(crate::arithmetic::fast_two_sum, g_fts)] #[kani::stub(TwoFloat::new_add, g_new_add)] #[kani::stub(TwoFloat::new_sub, g_new_sub)] fn acc4_sub_gap_p1() { acc4_case(1, 1) }
    #[kani::solver(kissat)] #[kani::unwind(6)] #[kani::stub(crate::arithmetic::fast_two_sum, g_fts)] #[kani::stub(TwoFloat::new_add, g_new_add)] #[kani::stub(TwoFloat::new_sub, g_new_sub)] fn acc4_sub_gap_p2() { acc4_case(1, 2) }
    #[kani::solver(kissat)] #[kani::unwind(6)] #[kani::stub(crate::arithmetic::fast_two_sum, g_fts)] #[kani::stub(TwoFloat::new_add, g_new_add)] #[kani::stub(TwoFloat::new_sub, g_new_sub)] fn acc4_sub_gap_p3() { acc4_case(1, 3) }
    #[kani::solver(kissat)] #[kani::unwind(6)] #[kani::stub(crate::arithmetic::fast_two_sum, g_fts)] #[kani::stub(TwoFloat::new_add, g_new_add)] #[kani::stub(TwoFloat::new_sub, g_new_sub)] fn acc4_sub_gap_p4() { acc4_case(1, 4) }
    #[kani::solver(kissat)] #[kani::unwind(6)] #[kani::stub(crate::arithmetic::fast_two_sum, g_fts)] #[kani::stub(TwoFloat::new_add, g_new_add)] #[kani::stub(TwoFloat::new_sub, g_new_sub)] fn acc4_sub_gap_p5() { acc4_case(1, 5) }
    #[kani::solver(kissat)] #[kani::unwind(6)] #[kani::stub(crate::arithmetic::fast_two_sum, g_fts)] #[kani::stub(TwoFloat::new_add, g_new_add)] #[kani::stub(TwoFloat::new_sub, g_new_sub)] fn acc4_sub_gap_p6() { acc4_case(1, 6) }
    #[kani::solver(kissat)] #[kani::unwind(6)] #[kani::stub(crate::arithmetic::fast_two_sum, g_fts)] #[kani::stub(TwoFloat::new_add, g_new_add)] #[kani::stub(TwoFloat::new_sub, g_new_sub)] fn acc4_sub_gap_p7() { acc4_case(1, 7) }
    #[kani::solver(kissat)] #[kani::unwind(6)] #[kani::stub(crate::arithmetic::fast_two_sum, g_fts)] #[kani::stub(TwoFloat::new_add, g_new_add)] #[kani::stub(TwoFloat::new_sub, g_new_sub)] fn acc4_sub_gap_p8() { acc4_case(1, 8) }
    #[kani::solver(kissat)] #[kani::unwind(6)] #[kani::stub(crate::arithmetic::fast_two_sum, g_fts)] #[kani::stub(TwoFloat::new_add, g_new_add)] #[kani::stub(TwoFloat::new_sub, g_new_sub)] fn acc4_sub_gap_p9() { acc4_case(1, 9) }
    #[kani::solver(kissat)] #[kani::unwind(6)] #[kani::stub(crate::arithmetic::fast_two_sum, g_fts)] #[kani::stub(TwoFloat::new_add, g_new_add)] #[kani::stub(TwoFloat::new_sub, g_new_sub)] fn acc4_sub_gap_p10() { acc4_case(1, 10) }
    #[kani::solver(kissat)] #[kani::unwind(6)] #[kani::stub(crate::arithmetic::fast_two_sum, g_fts)] #[kani::stub(TwoFloat::new_add, g_new_add)] #[kani::stub(TwoFloat::new_sub, g_new_sub)] fn acc4_sub_gap_p11() { acc4_case(1, 11) }
    #[kani::solver(kissat)] #[kani::unwind(6)] #[kani::stub(crate::arithmetic::fast_two_sum, g_fts)] #[kani::stub(TwoFloat::new_add, g_new_add)] #[kani::stub(TwoFloat::new_sub, g_new_sub)] fn acc4_sub_gap_p12() { acc4_case(1, 12) }
    #[kani::solver(kissat)] #[kani::unwind(6)] #[kani::stub(crate::arithmetic::fast_two_sum, g_fts)] #[kani::stub(TwoFloat::new_add, g_new_add)] #[kani::stub(TwoFloat::new_sub, g_new_sub)] fn acc4_sub_gap_p13() { acc4_case(1, 13) }
    #[kani::solver(kissat)] #[kani::unwind(6)] #[kani::stub(crate::arithmetic::fast_two_sum, g_fts)] #[kani::stub(TwoFloat::new_add, g_new_add)] #[kani::stub(TwoFloat::new_sub, g_new_sub)] fn acc4_sub_gap_p14() { acc4_case(1, 14) }
    #[kani::solver(kissat)] #[kani::unwind(6)] #[kani::stub(crate::arithmetic::fast_two_sum, g_fts)] #[kani::stub(TwoFloat::new_add, g_new_add)] #[kani::stub(TwoFloat::new_sub, g_new_sub)] fn acc4_sub_gap_p15() { acc4_case(1, 15) }
    #[kani::solver(kissat)] #[kani::unwind(6)] #[kani::stub(crate::arithmetic::fast_two_sum, g_fts)] #[kani::stub(TwoFloat::new_add, g_new_add)] #[kani::stub(TwoFloat::new_sub, g_new_sub)] fn acc4_sub_gap_p16() { acc4_case(1, 16) }
    #[kani::solver(kissat)] #[kani::unwind(6)] #[kani::stub(crate::arithmetic::fast_two_sum, g_fts)] #[kani::stub(TwoFloat::new_add, g_new_add)] #[kani::stub(TwoFloat::new_sub, g_new_sub)] fn acc4_sub_gap_p17() { acc4_case(1, 17) }
    #[kani::solver(kissat)] #[kani::unwind(6)] #[kani::stub(crate::arithmetic::fast_two_sum, g_fts)] #[kani::stub(TwoFloat::new_add, g_new_add)] #[kani::stub(TwoFloat::new_sub, g_new_sub)] fn acc4_sub_gap_p18() { acc4_case(1, 18) }
    #[kani::solver(kissat)] #[kani::unwind(6)] #[kani::stub(crate::arithmetic::fast_two_sum, g_fts)] #[kani::stub(TwoFloat::new_add, g_new_add)] #[kani::stub(TwoFloat::new_sub, g_new_sub)] fn acc4_sub_gap_p19() { acc4_case(1, 19) }
    #[kani::solver(kissat)] #[kani::unwind(6)] #[kani::stub(crate::arithmetic::fast_two_sum, g_fts)] #[kani::stub(TwoFloat::new_add, g_new_add)] #[kani::stub(TwoFloat::new_sub, g_new_sub)] fn acc4_sub_gap_p20() { acc4_case(1, 20) }
    #[kani::solver(kissat)] #[kani::unwind(6)] #[kani::stub(crate::arithmetic::fast_two_sum, g_fts)] #[kani::stub(TwoFloat::new_add, g_new_add)] #[kani::stub(TwoFloat::new_sub, g_new_sub)] fn acc4_sub_gap_p21() { acc4_case(1, 21) }
    #[kani::solver(kissat)] #[kani::unwind(6)] #[kani::stub(crate::arithmetic::fast_two_sum, g_fts)] #[kani::stub(TwoFloat::new_add, g_new_add)] #[kani::stub(TwoFloat::new_sub, g_new_sub)] fn acc4_sub_gap_p22() { acc4_case(1, 22) }
    #[kani::solver(kissat)] #[kani::unwind(6)] #[kani::stub(crate::arithmetic::fast_two_sum, g_fts)] #[kani::stub(TwoFloat::new_add, g_new_add)] #[kani::stub(TwoFloat::new_sub, g_new_sub)] fn acc4_sub_gap_p23() { acc4_case(1, 23) }
    #[kani::solver(kissat)] #[kani::unwind(6)] #[kani::stub(crate::arithmetic::fast_two_sum, g_fts)] #[kani::stub(TwoFloat::new_add, g_new_add)] #[kani::stub(TwoFloat::new_sub, g_new_sub)] fn acc4_sub_gap_p24() { acc4_case(1, 24) }
    #[kani::solver(kissat)] #[kani::unwind(6)] #[kani::stub(crate::arithmetic::fast_two_sum, g_fts)] #[kani::stub(TwoFloat::new_add, g_new_add)] #[kani::stub(TwoFloat::new_sub, g_new_sub)] fn acc4_sub_gap_p25() { acc4_case(1, 25) }
    #[kani::solver(kissat)] #[kani::unwind(6)] #[kani::stub(crate::arithmetic::fast_two_sum, g_fts)] #[kani::stub(TwoFloat::new_add, g_new_add)] #[kani::stub(TwoFloat::new_sub, g_new_sub)] fn acc4_sub_gap_p26() { acc4_case(1, 26) }
    #[kani::solver(kissat)] #[kani::unwind(6)] #[kani::stub(crate::arithmetic::fast_two_sum, g_fts)] #[kani::stub(TwoFloat::new_add, g_new_add)] #[kani::stub(TwoFloat::new_sub, g_new_sub)] fn acc4_sub_gap_p27() { acc4_case(1, 27) }
    #[kani::solver(kissat)] #[kani::unwind(6)] #[kani::stub(crate::arithmetic::fast_two_sum, g_fts)] #[kani::stub(TwoFloat::new_add, g_new_add)] #[kani::stub(TwoFloat::new_sub, g_new_sub)] fn acc4_sub_gap_p28() { acc4_case(1, 28) }
    #[kani::solver(kissat)] #[kani::unwind(6)] #[kani::stub(crate::arithmetic::fast_two_sum, g_fts)] #[kani::stub(TwoFloat::new_add, g_new_add)] #[kani::stub(TwoFloat::new_sub, g_new_sub)] fn acc4_sub_gap_p29() { acc4_case(1, 29) }
    #[kani::solver(kissat)] #[kani::unwind(6)] #[kani::stub(crate::arithmetic::fast_two_sum, g_fts)] #[kani::stub(TwoFloat::new_add, g_new_add)] #[kani::stub(TwoFloat::new_sub, g_new_sub)] fn acc4_sub_gap_p30() { acc4_case(1, 30) }
    #[kani::solver(kissat)] #[kani::unwind(6)] #[kani::stub(crate::arithmetic::fast_two_sum, g_fts)] #[kani::stub(TwoFloat::new_add, g_new_add)] #[kani::stub(TwoFloat::new_sub, g_new_sub)] fn acc4_sub_gap_p31() { acc4_case(1, 31) }
    #[kani::solver(kissat)] #[kani::unwind(6)] #[kani::stub(crate::arithmetic::fast_two_sum, g_fts)] #[kani::stub(TwoFloat::new_add, g_new_add)] #[kani::stub(TwoFloat::new_sub, g_new_sub)] fn acc4_sub_gap_p32() { acc4_case(1, 32) }
    #[kani::solver(kissat)] #[kani::unwind(6)] #[kani::stub(crate::arithmetic::fast_two_sum, g_fts)] #[kani::stub(TwoFloat::new_add, g_new_add)] #[kani::stub(TwoFloat::new_sub, g_new_sub)] fn acc4_sub_gap_p33() { acc4_case(1, 33) }
    #[kani::solver(kissat)] #[kani::unwind(6)] #[kani::stub(crate::arithmetic::fast_two_sum, g_fts)] #[kani::stub(TwoFloat::new_add, g_new_add)] #[kani::stub(TwoFloat::new_sub, g_new_sub)] fn acc4_sub_gap_p34() { acc4_case(1, 34) }
    #[kani::solver(kissat)] #[kani::unwind(6)] #[kani::stub(crate::arithmetic::fast_two_sum, g_fts)] #[kani::stub(TwoFloat::new_add, g_new_add)] #[kani::stub(TwoFloat::new_sub, g_new_sub)] fn acc4_sub_gap_p35() { acc4_case(1, 35) }
    #[kani::solver(kissat)] #[kani::unwind(6)] #[kani::stub(crate::arithmetic::fast_two_sum, g_fts)] #[kani::stub(TwoFloat::new_add, g_new_add)] #[kani::stub(TwoFloat::new_sub, g_new_sub)] fn acc4_sub_gap_p36() { acc4_case(1, 36) }
    #[kani::solver(kissat)] #[kani::unwind(6)] #[kani::stub(crate::arithmetic::fast_two_sum, g_fts)] #[kani::stub(TwoFloat::new_add, g_new_add)] #[kani::stub(TwoFloat::new_sub, g_new_sub)] fn acc4_sub_gap_p37() { acc4_case(1, 37) }
    #[kani::solver(kissat)] #[kani::unwind(6)] #[kani::stub(crate::arithmetic::fast_two_sum, g_fts)] #[kani::stub(TwoFloat::new_add, g_new_add)] #[kani::stub(TwoFloat::new_sub, g_new_sub)] fn acc4_sub_gap_p38() { acc4_case(1, 38) }
    #[kani::solver(kissat)] #[kani::unwind(6)] #[kani::stub(crate::arithmetic::fast_two_sum, g_fts)] #[kani::stub(TwoFloat::new_add, g_new_add)] #[kani::stub(TwoFloat::new_sub, g_new_sub)] fn acc4_sub_gap_p39() { acc4_case(1, 39) }
    #[kani::solver(kissat)] #[kani::unwind(6)] #[kani::stub(crate::arithmetic::fast_two_sum, g_fts)] #[kani::stub(TwoFloat::new_add, g_new_add)] #[kani::stub(TwoFloat::new_sub, g_new_sub)] fn acc4_sub_gap_p40() { acc4_case(1, 40) }
    #[kani::solver(kissat)] #[kani::unwind(6)] #[kani::stub(crate::arithmetic::fast_two_sum, g_fts)] #[kani::stub(TwoFloat::new_add, g_new_add)] #[kani::stub(TwoFloat::new_sub, g_new_sub)] fn acc4_sub_gap_p41() { acc4_case(1, 41) }
    #[kani::solver(kissat)] #[kani::unwind(6)] #[kani::stub(crate::arithmetic::fast_two_sum, g_fts)] #[kani::stub(TwoFloat::new_add, g_new_add)] #[kani::stub(TwoFloat::new_sub, g_new_sub)] fn acc4_sub_gap_p42() { acc4_case(1, 42) }
    #[kani::solver(kissat)] #[kani::unwind(6)] #[kani::stub(crate::arithmetic::fast_two_sum, g_fts)] #[kani::stub(TwoFloat::new_add, g_new_add)] #[kani::stub(TwoFloat::new_sub, g_new_sub)] fn acc4_sub_gap_p43() { acc4_case(1, 43) }
    #[kani::solver(kissat)] #[kani::unwind(6)] #[kani::stub(crate::arithmetic::fast_two_sum, g_fts)] #[kani::stub(TwoFloat::new_add, g_new_add)] #[kani::stub(TwoFloat::new_sub, g_new_sub)] fn acc4_sub_gap_p44() { acc4_case(1, 44) }
    #[kani::solver(kissat)] #[kani::unwind(6)] #[kani::stub(crate::arithmetic::fast_two_sum, g_fts)] #[kani::stub(TwoFloat::new_add, g_new_add)] #[kani::stub(TwoFloat::new_sub, g_new_sub)] fn acc4_sub_gap_p45() { acc4_case(1, 45) }
    #[kani::solver(kissat)] #[kani::unwind(6)] #[kani::stub(crate::arithmetic::fast_two_sum, g_fts)] #[kani::stub(TwoFloat::new_add, g_new_add)] #[kani::stub(TwoFloat::new_sub, g_new_sub)] fn acc4_sub_gap_p46() { acc4_case(1, 46) }
    #[kani::solver(kissat)] #[kani::unwind(6)] #[kani::stub(crate::arithmetic::fast_two_sum, g_fts)] #[kani::stub(TwoFloat::new_add, g_new_add)] #[kani::stub(TwoFloat::new_sub, g_new_sub)] fn acc4_sub_gap_p47() { acc4_case(1, 47) }
    #[kani::solver(kissat)] #[kani::unwind(6)] #[kani::stub(crate::arithmetic::fast_two_sum, g_fts)] #[kani::stub(TwoFloat::new_add, g_new_add)] #[kani::stub(TwoFloat::new_sub, g_new_sub)] fn acc4_sub_gap_p48() { acc4_case(1, 48) }
    #[kani::solver(kissat)] #[kani::unwind(6)] #[kani::stub(crate::arithmetic::fast_two_sum, g_fts)] #[kani::stub(TwoFloat::new_add, g_new_add)] #[kani::stub(TwoFloat::new_sub, g_new_sub)] fn acc4_sub_gap_p49() { acc4_case(1, 49) }
    #[kani::solver(kissat)] #[kani::unwind(6)] #[kani::stub(crate::arithmetic::fast_two_sum, g_fts)] #[kani::stub(TwoFloat::new_add, g_new_add)] #[kani::stub(TwoFloat::new_sub, g_new_sub)] fn acc4_sub_gap_p50() { acc4_case(1, 50) }
    #[kani::solver(kissat)] #[kani::unwind(6)] #[kani::stub(crate::arithmetic::fast_two_sum, g_fts)] #[kani::stub(TwoFloat::new_add, g_new_add)] #[kani::stub(TwoFloat::new_sub, g_new_sub)] fn acc4_sub_gap_p51() { acc4_case(1, 51) }
    #[kani::solver(kissat)] #[kani::unwind(6)] #[kani::stub(crate::arithmetic::fast_two_sum, g_fts)] #[kani::stub(TwoFloat::new_add, g_new_add)] #[kani::stub(TwoFloat::new_sub, g_new_sub)] fn acc4_sub_gap_p52() { acc4_case(1, 52) }
    #[kani::solver(kissat)] #[kani::unwind(6)] #[kani::stub(crate::arithmetic::fast_two_sum, g_fts)] #[kani::stub(TwoFloat::new_add, g_new_add)] #[kani::stub(TwoFloat::new_sub, g_new_sub)] fn acc4_sub_gap_p53() { acc4_case(1, 53) }
    #[kani::solver(kissat)] #[kani::unwind(6)] #[kani::stub(crate::arithmetic::fast_two_sum, g_fts)] #[kani::stub(TwoFloat::new_add, g_new_add)] #[kani::stub(TwoFloat::new_sub, g_new_sub)] fn acc4_sub_gap_p54() { acc4_case(1, 54) }
    #[kani::solver(kissat)] #[kani::unwind(6)] #[kani::stub(crate::arithmetic::fast_two_sum, g_fts)] #[kani::stub(TwoFloat::new_add, g_new_add)] #[kani::stub(TwoFloat::new_sub, g_new_sub)] fn acc4_sub_gap_p55() { acc4_case(1, 55) }
    #[kani::solver(kissat)] #[kani::unwind(6)] #[kani::stub(crate::arithmetic::fast_two_sum, g_fts)] #[kani::stub(TwoFloat::new_add, g_new_add)] #[kani::stub(TwoFloat::new_sub, g_new_sub)] fn acc4_sub_gap_p56() { acc4_case(1, 56) }
    #[kani::solver(kissat)] #[kani::unwind(6)] #[kani::stub(crate::arithmetic::fast_two_sum, g_fts)] #[kani::stub(TwoFloat::new_add, g_new_add)] #[kani::stub(TwoFloat::new_sub, g_new_sub)] fn acc4_sub_gap_p57() { acc4_case(1, 57) }
    #[kani::solver(kissat)] #[kani::unwind(6)] #[kani::stub(crate::arithmetic::fast_two_sum, g_fts)] #[kani::stub(TwoFloat::new_add, g_new_add)] #[kani::stub(TwoFloat::new_sub, g_new_sub)] fn acc4_sub_gap_p58() { acc4_case(1, 58) }
    #[kani::solver(kissat)] #[kani::unwind(6)] #[kani::stub(crate::arithmetic::fast_two_sum, g_fts)] #[kani::stub(TwoFloat::new_add, g_new_add)] #[kani::stub(TwoFloat::new_sub, g_new_sub)] fn acc4_sub_gap_p59() { acc4_case(1, 59) }
    #[kani::solver(kissat)] #[kani::unwind(6)] #[kani::stub(crate::arithmetic::fast_two_sum, g_fts)] #[kani::stub(TwoFloat::new_add, g_new_add)] #[kani::stub(TwoFloat::new_sub, g_new_sub)] fn acc4_sub_gap_p60() { acc4_case(1, 60) }
    #[kani::solver(kissat)] #[kani::unwind(6)] #[kani::stub(crate::arithmetic::fast_two_sum, g_fts)] #[kani::stub(TwoFloat::new_add, g_new_add)] #[kani::stub(TwoFloat::new_sub, g_new_sub)] fn acc4_sub_far_p() { acc4_case(1, 1000) }
    #[kani::solver(kissat)] #[kani::unwind(6)] #[kani::stub(crate::arithmetic::fast_two_sum, g_fts)] #[kani::stub(TwoFloat::new_add, g_new_add)] #[kani::stub(TwoFloat::new_sub, g_new_sub)] fn acc4_sub_far_m() { acc4_case(1, -1000) }
    #[kani::solver(kissat)] #[kani::unwind(6)] #[kani::stub(crate::arithmetic::fast_two_sum, g_fts)] #[kani::stub(TwoFloat::new_add, g_new_add)] #[kani::stub(TwoFloat::new_sub, g_new_sub)] fn acc4_rsub_gap_m60() { acc4_case(2, -60) }
    #[kani::solver(kissat)] #[kani::unwind(6)] #[kani::stub(crate::arithmetic::fast_two_sum, g_fts)] #[kani::stub(TwoFloat::new_add, g_new_add)] #[kani::stub(TwoFloat::new_sub, g_new_sub)] fn acc4_rsub_gap_m59() { acc4_case(2, -59) }
    #[kani::solver(kissat)] #[kani::unwind(6)] #[kani::stub(crate::arithmetic::fast_two_sum, g_fts)] #[kani::stub(TwoFloat::new_add, g_new_add)] #[kani::stub(TwoFloat::new_sub, g_new_sub)] fn acc4_rsub_gap_m58() { acc4_case(2, -58) }
    #[kani::solver(kissat)] #[kani::unwind(6)] #[kani::stub(crate::arithmetic::fast_two_sum, g_fts)] #[kani::stub(TwoFloat::new_add, g_new_add)] #[kani::stub(TwoFloat::new_sub, g_new_sub)] fn acc4_rsub_gap_m57() { acc4_case(2, -57) }
    #[kani::solver(kissat)] #[kani::unwind(6)] #[kani::stub(crate::arithmetic::fast_two_sum, g_fts)] #[kani::stub(TwoFloat::new_add, g_new_add)] #[kani::stub(TwoFloat::new_sub, g_new_sub)] fn acc4_rsub_gap_m56() { acc4_case(2, -56) }
    #[kani::solver(kissat)] #[kani::unwind(6)] #[kani::stub(crate::arithmetic::fast_two_sum, g_fts)] #[kani::stub(TwoFloat::new_add, g_new_add)] #[kani::stub(TwoFloat::new_sub, g_new_sub)] fn acc4_rsub_gap_m55() { acc4_case(2, -55) }
    #[kani::solver(kissat)] #[kani::unwind(6)] #[kani::stub(crate::arithmetic::fast_two_sum, g_fts)] #[kani::stub(TwoFloat::new_add, g_new_add)] #[kani::stub(TwoFloat::new_sub, g_new_sub)] fn acc4_rsub_gap_m54() { acc4_case(2, -54) }
    #[kani::solver(kissat)] #[kani::unwind(6)] #[kani::stub(crate::arithmetic::fast_two_sum, g_fts)] #[kani::stub(TwoFloat::new_add, g_new_add)] #[kani::stub(TwoFloat::new_sub, g_new_sub)] fn acc4_rsub_gap_m53() { acc4_case(2, -53) }
    #[kani::solver(kissat)] #[kani::unwind(6)] #[kani::stub(crate::arithmetic::fast_two_sum, g_fts)] #[kani::stub(TwoFloat::new_add, g_new_add)] #[kani::stub(TwoFloat::new_sub, g_new_sub)] fn acc4_rsub_gap_m52() { acc4_case(2, -52) }
    #[kani::solver(kissat)] #[kani::unwind(6)] #[kani::stub(crate::arithmetic::fast_two_sum, g_fts)] #[kani::stub(TwoFloat::new_add, g_new_add)] #[kani::stub(TwoFloat::new_sub, g_new_sub)] fn acc4_rsub_gap_m51() { acc4_case(2, -51) }
    #[kani::solver(kissat)] #[kani::unwind(6)] #[kani::stub(crate::arithmetic::fast_two_sum, g_fts)] #[kani::stub(TwoFloat::new_add, g_new_add)] #[kani::stub(TwoFloat::new_sub, g_new_sub)] fn acc4_rsub_gap_m50() { acc4_case(2, -50) }
    #[kani::solver(kissat)] #[kani::unwind(6)] #[kani::stub(crate::arithmetic::fast_two_sum, g_fts)] #[kani::stub(TwoFloat::new_add, g_new_add)] #[kani::stub(TwoFloat::new_sub, g_new_sub)] fn acc4_rsub_gap_m49() { acc4_case(2, -49) }
    #[kani::solver(kissat)] #[kani::unwind(6)] #[kani::stub(crate::arithmetic::fast_two_sum, g_fts)] #[kani::stub(TwoFloat::new_add, g_new_add)] #[kani::stub(TwoFloat::new_sub, g_new_sub)] fn acc4_rsub_gap_m48() { acc4_case(2, -48) }
    #[kani::solver(kissat)] #[kani::unwind(6)] #[kani::stub(crate::arithmetic::fast_two_sum, g_fts)] #[kani::stub(TwoFloat::new_add, g_new_add)] #[kani::stub(TwoFloat::new_sub, g_new_sub)] fn acc4_rsub_gap_m47() { acc4_case(2, -47) }
    #[kani::solver(kissat)] #[kani::unwind(6)] #[kani::stub(crate::arithmetic::fast_two_sum, g_fts)] #[kani::stub(TwoFloat::new_add, g_new_add)] #[kani::stub(TwoFloat::new_sub, g_new_sub)] fn acc4_rsub_gap_m46() { acc4_case(2, -46) }
    #[kani::solver(kissat)] #[kani::unwind(6)] #[kani::stub(crate::arithmetic::fast_two_sum, g_fts)] #[kani::stub(TwoFloat::new_add, g_new_add)] #[kani::stub(TwoFloat::new_sub, g_new_sub)] fn acc4_rsub_gap_m45() { acc4_case(2, -45) }
    #[kani::solver(kissat)] #[kani::unwind(6)] #[kani::stub(crate::arithmetic::fast_two_sum, g_fts)] #[kani::stub(TwoFloat::new_add, g_new_add)] #[kani::stub(TwoFloat::new_sub, g_new_sub)] fn acc4_rsub_gap_m44() { acc4_case(2, -44) }
    #[kani::solver(kissat)] #[kani::unwind(6)] #[kani::stub(crate::arithmetic::fast_two_sum, g_fts)] #[kani::stub(TwoFloat::new_add, g_new_add)] #[kani::stub(TwoFloat::new_sub, g_new_sub)] fn acc4_rsub_gap_m43() { acc4_case(2, -43) }
    #[kani::solver(kissat)] #[kani::unwind(6)] #[kani::stub(crate::arithmetic::fast_two_sum, g_fts)] #[kani::stub(TwoFloat::new_add, g_new_add)] #[kani::stub(TwoFloat::new_sub, g_new_sub)] fn acc4_rsub_gap_m42() { acc4_case(2, -42) }
    #[kani::solver(kissat)] #[kani::unwind(6)] #[kani::stub(crate::arithmetic::fast_two_sum, g_fts)] #[kani::stub(TwoFloat::new_add, g_new_add)] #[kani::stub(TwoFloat::new_sub, g_new_sub)] fn acc4_rsub_gap_m41() { acc4_case(2, -41) }
    #[kani::solver(kissat)] #[kani::unwind(6)] #[kani::stub(crate::arithmetic::fast_two_sum, g_fts)] #[kani::stub(TwoFloat::new_add, g_new_add)] #[kani::stub(TwoFloat::new_sub, g_new_sub)] fn acc4_rsub_gap_m40() { acc4_case(2, -40) }
    #[kani::solver(kissat)] #[kani::unwind(6)] #[kani::stub(crate::arithmetic::fast_two_sum, g_fts)] #[kani::stub(TwoFloat::new_add, g_new_add)] #[kani::stub(TwoFloat::new_sub, g_new_sub)] fn acc4_rsub_gap_m39() { acc4_case(2, -39) }
    #[kani::solver(kissat)] #[kani::unwind(6)] #[kani::stub(crate::arithmetic::fast_two_sum, g_fts)] #[kani::stub(TwoFloat::new_add, g_new_add)] #[kani::stub(TwoFloat::new_sub, g_new_sub)] fn acc4_rsub_gap_m38() { acc4_case(2, -38) }
    #[kani::solver(kissat)] #[kani::unwind(6)] #[kani::stub(crate::arithmetic::fast_two_sum, g_fts)] #[kani::stub(TwoFloat::new_add, g_new_add)] #[kani::stub(TwoFloat::new_sub, g_new_sub)] fn acc4_rsub_gap_m37() { acc4_case(2, -37) }
    #[kani::solver(kissat)] #[kani::unwind(6)] #[kani::stub(crate::arithmetic::fast_two_sum, g_fts)] #[kani::stub(TwoFloat::new_add, g_new_add)] #[kani::stub(TwoFloat::new_sub, g_new_sub)] fn acc4_rsub_gap_m36() { acc4_case(2, -36) }
    #[kani::solver(kissat)] #[kani::unwind(6)] #[kani::stub(crate::arithmetic::fast_two_sum, g_fts)] #[kani::stub(TwoFloat::new_add, g_new_add)] #[kani::stub(TwoFloat::new_sub, g_new_sub)] fn acc4_rsub_gap_m35() { acc4_case(2, -35) }
    #[kani::solver(kissat)] #[kani::unwind(6)] #[kani::stub(crate::arithmetic::fast_two_sum, g_fts)] #[kani::stub(TwoFloat::new_add, g_new_add)] #[kani::stub(TwoFloat::new_sub, g_new_sub)] fn acc4_rsub_gap_m34() { acc4_case(2, -34) }
    #[kani::solver(kissat)] #[kani::unwind(6)] #[kani::stub(crate::arithmetic::fast_two_sum, g_fts)] #[kani::stub(TwoFloat::new_add, g_new_add)] #[kani::stub(TwoFloat::new_sub, g_new_sub)] fn acc4_rsub_gap_m33() { acc4_case(2, -33) }
    #[kani::solver(kissat)] #[kani::unwind(6)] #[kani::stub(crate::arithmetic::fast_two_sum, g_fts)] #[kani::stub(TwoFloat::new_add, g_new_add)] #[kani::stub(TwoFloat::new_sub, g_new_sub)] fn acc4_rsub_gap_m32() { acc4_case(2, -32) }
    #[kani::solver(kissat)] #[kani::unwind(6)] #[kani::stub(crate::arithmetic::fast_two_sum, g_fts)] #[kani::stub(TwoFloat::new_add, g_new_add)] #[kani::stub(TwoFloat::new_sub, g_new_sub)] fn acc4_rsub_gap_m31() { acc4_case(2, -31) }
    #[kani::solver(kissat)] #[kani::unwind(6)] #[kani::stub(crate::arithmetic::fast_two_sum, g_fts)] #[kani::stub(TwoFloat::new_add, g_new_add)] #[kani::stub(TwoFloat::new_sub, g_new_sub)] fn acc4_rsub_gap_m30() { acc4_case(2, -30) }
    #[kani::solver(kissat)] #[kani::unwind(6)] #[kani::stub(crate::arithmetic::fast_two_sum, g_fts)] #[kani::stub(TwoFloat::new_add, g_new_add)] #[kani::stub(TwoFloat::new_sub, g_new_sub)] fn acc4_rsub_gap_m29() { acc4_case(2, -29) }
    #[kani::solver(kissat)] #[kani::unwind(6)] #[kani::stub(crate::arithmetic::fast_two_sum, g_fts)] #[kani::stub(TwoFloat::new_add, g_new_add)] #[kani::stub(TwoFloat::new_sub, g_new_sub)] fn acc4_rsub_gap_m28() { acc4_case(2, -28) }
    #[kani::solver(kissat)] #[kani::unwind(6)] #[kani::stub(crate::arithmetic::fast_two_sum, g_fts)] #[kani::stub(TwoFloat::new_add, g_new_add)] #[kani::stub(TwoFloat::new_sub, g_new_sub)] fn acc4_rsub_gap_m27() { acc4_case(2, -27) }
    #[kani::solver(kissat)] #[kani::unwind(6)] #[kani::stub(crate::arithmetic::fast_two_sum, g_fts)] #[kani::stub(TwoFloat::new_add, g_new_add)] #[kani::stub(TwoFloat::new_sub, g_new_sub)] fn acc4_rsub_gap_m26() { acc4_case(2, -26) }
    #[kani::solver(kissat)] #[kani::unwind(6)] #[kani::stub(crate::arithmetic::fast_two_sum, g_fts)] #[kani::stub(TwoFloat::new_add, g_new_add)] #[kani::stub(TwoFloat::new_sub, g_new_sub)] fn acc4_rsub_gap_m25() { acc4_case(2, -25) }
    #[kani::solver(kissat)] #[kani::unwind(6)] #[kani::stub(crate::arithmetic::fast_two_sum, g_fts)] #[kani::stub(TwoFloat::new_add, g_new_add)] #[kani::stub(TwoFloat::new_sub, g_new_sub)] fn acc4_rsub_gap_m24() { acc4_case(2, -24) }
    #[kani::solver(kissat)] #[kani::unwind(6)] #[kani::stub(crate::arithmetic::fast_two_sum, g_fts)] #[kani::stub(TwoFloat::new_add, g_new_add)] #[kani::stub(TwoFloat::new_sub, g_new_sub)] fn acc4_rsub_gap_m23() { acc4_case(2, -23) }
    #[kani::solver(kissat)] #[kani::unwind(6)] #[kani::stub(crate::arithmetic::fast_two_sum, g_fts)] #[kani::stub(TwoFloat::new_add, g_new_add)] #[kani::stub(TwoFloat::new_sub, g_new_sub)] fn acc4_rsub_gap_m22() { acc4_case(2, -22) }
    #[kani::solver(kissat)] #[kani::unwind(6)] #[kani::stub(crate::arithmetic::fast_two_sum, g_fts)] #[kani::stub(TwoFloat::new_add, g_new_add)] #[kani::stub(TwoFloat::new_sub, g_new_sub)] fn acc4_rsub_gap_m21() { acc4_case(2, -21) }
    #[kani::solver(kissat)] #[kani::unwind(6)] #[kani::stub(crate::arithmetic::fast_two_sum, g_fts)] #[kani::stub(TwoFloat::new_add, g_new_add)] #[kani::stub(TwoFloat::new_sub, g_new_sub)] fn acc4_rsub_gap_m20() { acc4_case(2, -20) }
    #[kani::solver(kissat)] #[kani::unwind(6)] #[kani::stub(crate::arithmetic::fast_two_sum, g_fts)] #[kani::stub(TwoFloat::new_add, g_new_add)] #[kani::stub(TwoFloat::new_sub, g_new_sub)] fn acc4_rsub_gap_m19() { acc4_case(2, -19) }
    #[kani::solver(kissat)] #[kani::unwind(6)] #[kani::stub(crate::arithmetic::fast_two_sum, g_fts)] #[kani::stub(TwoFloat::new_add, g_new_add)] #[kani::stub(TwoFloat::new_sub, g_new_sub)] fn acc4_rsub_gap_m18() { acc4_case(2, -18) }
    #[kani::solver(kissat)] #[kani::unwind(6)] #[kani::stub(crate::arithmetic::fast_two_sum, g_fts)] #[kani::stub(TwoFloat::new_add, g_new_add)] #[kani::stub(TwoFloat::new_sub, g_new_sub)] fn acc4_rsub_gap_m17() { acc4_case(2, -17) }
    #[kani::solver(kissat)] #[kani::unwind(6)] #[kani::stub(crate::arithmetic::fast_two_sum, g_fts)] #[kani::stub(TwoFloat::new_add, g_new_add)] #[kani::stub(TwoFloat::new_sub, g_new_sub)] fn acc4_rsub_gap_m16() { acc4_case(2, -16) }
    #[kani::solver(kissat)] #[kani::unwind(6)] #[kani::stub(crate::arithmetic::fast_two_sum, g_fts)] #[kani::stub(TwoFloat::new_add, g_new_add)] #[kani::stub(TwoFloat::new_sub, g_new_sub)] fn acc4_rsub_gap_m15() { acc4_case(2, -15) }
    #[kani::solver(kissat)] #[kani::unwind(6)] #[kani::stub(crate::arithmetic::fast_two_sum, g_fts)] #[kani::stub(TwoFloat::new_add, g_new_add)] #[kani::stub(TwoFloat::new_sub, g_new_sub)] fn acc4_rsub_gap_m14() { acc4_case(2, -14) }
    #[kani::solver(kissat)] #[kani::unwind(6)] #[kani::stub(crate::arithmetic::fast_two_sum, g_fts)] #[kani::stub(TwoFloat::new_add, g_new_add)] #[kani::stub(TwoFloat::new_sub, g_new_sub)] fn acc4_rsub_gap_m13() { acc4_case(2, -13) }
    #[kani::solver(kissat)] #[kani::unwind(6)] #[kani::stub(crate::arithmetic::fast_two_sum, g_fts)] #[kani::stub(TwoFloat::new_add, g_new_add)] #[kani::stub(TwoFloat::new_sub, g_new_sub)] fn acc4_rsub_gap_m12() { acc4_case(2, -12) }
    #[kani::solver(kissat)] #[kani::unwind(6)] #[kani::stub(crate::arithmetic::fast_two_sum, g_fts)] #[kani::stub(TwoFloat::new_add, g_new_add)] #[kani::stub(TwoFloat::new_sub, g_new_sub)] fn acc4_rsub_gap_m11() { acc4_case(2, -11) }
    #[kani::solver(kissat)] #[kani::unwind(6)] #[kani::stub(crate::arithmetic::fast_two_sum, g_fts)] #[kani::stub(TwoFloat::new_add, g_new_add)] #[kani::stub(TwoFloat::new_sub, g_new_sub)] fn acc4_rsub_gap_m10() { acc4_case(2, -10) }
    #[kani::solver(kissat)] #[kani::unwind(6)] #[kani::stub(crate::arithmetic::fast_two_sum, g_fts)] #[kani::stub(TwoFloat::new_add, g_new_add)] #[kani::stub(TwoFloat::new_sub, g_new_sub)] fn acc4_rsub_gap_m9() { acc4_case(2, -9) }
    #[kani::solver(kissat)] #[kani::unwind(6)] #[kani::stub(crate::arithmetic::fast_two_sum, g_fts)] #[kani::stub(TwoFloat::new_add, g_new_add)] #[kani::stub(TwoFloat::new_sub, g_new_sub)] fn acc4_rsub_gap_m8() { acc4_case(2, -8) }
    #[kani::solver(kissat)] #[kani::unwind(6)] #[kani::stub(crate::arithmetic::fast_two_sum, g_fts)] #[kani::stub(TwoFloat::new_add, g_new_add)] #[kani::stub(TwoFloat::new_sub, g_new_sub)] fn acc4_rsub_gap_m7() { acc4_case(2, -7) }
    #[kani::solver(kissat)] #[kani::unwind(6)] #[kani::stub(crate::arithmetic::fast_two_sum, g_fts)] #[kani::stub(TwoFloat::new_add, g_new_add)] #[kani::stub(TwoFloat::new_sub, g_new_sub)] fn acc4_rsub_gap_m6() { acc4_case(2, -6) }
    #[kani::solver(kissat)] #[kani::unwind(6)] #[kani::stub(crate::arithmetic::fast_two_sum, g_fts)] #[kani::stub(TwoFloat::new_add, g_new_add)] #[kani::stub(TwoFloat::new_sub, g_new_sub)] fn acc4_rsub_gap_m5() { acc4_case(2, -5) }
    #[kani::solver(kissat)] #[kani::unwind(6)] #[kani::stub(crate::arithmetic::fast_two_sum, g_fts)] #[kani::stub(TwoFloat::new_add, g_new_add)] #[kani::stub(TwoFloat::new_sub, g_new_sub)] fn acc4_rsub_gap_m4() { acc4_case(2, -4) }
    #[kani::solver(kissat)] #[kani::unwind(6)] #[kani::stub(crate::arithmetic::fast_two_sum, g_fts)] #[kani::stub(TwoFloat::new_add, g_new_add)] #[kani::stub(TwoFloat::new_sub, g_new_sub)] fn acc4_rsub_gap_m3() { acc4_case(2, -3) }
    #[kani::solver(kissat)] #[kani::unwind(6)] #[kani::stub(crate::arithmetic::fast_two_sum, g_fts)] #[kani::stub(TwoFloat::new_add, g_new_add)] #[kani::stub(TwoFloat::new_sub, g_new_sub)] fn acc4_rsub_gap_m2() { acc4_case(2, -2) }
    #[kani::solver(kissat)] #[kani::unwind(6)] #[kani::stub(crate::arithmetic::fast_two_sum, g_fts)] #[kani::stub(TwoFloat::new_add, g_new_add)] #[kani::stub(TwoFloat::new_sub, g_new_sub)] fn acc4_rsub_gap_m1() { acc4_case(2, -1) }
    #[kani::solver(kissat)] #[kani::unwind(6)] #[kani::stub(crate::arithmetic::fast_two_sum, g_fts)] #[kani::stub(TwoFloat::new_add, g_new_add)] #[kani::stub(TwoFloat::new_sub, g_new_sub)] fn acc4_rsub_gap_p0() { acc4_case(2, 0) }
    #[kani::solver(kissat)] #[kani::unwind(6)] #[kani::stub(crate::arithmetic::fast_two_sum, g_fts)] #[kani::stub(TwoFloat::new_add, g_new_add)] #[kani::stub(TwoFloat::new_sub, g_new_sub)] fn acc4_rsub_gap_p1() { acc4_case(2, 1) }
    #[kani::solver(kissat)] #[kani::unwind(6)] #[kani::stub(crate::arithmetic::fast_two_sum, g_fts)] #[kani::stub(TwoFloat::new_add, g_new_add)] #[kani::stub(TwoFloat::new_sub, g_new_sub)] fn acc4_rsub_gap_p2() { acc4_case(2, 2) }
    #[kani::solver(kissat)] #[kani::unwind(6)] #[kani::stub(crate::arithmetic::fast_two_sum, g_fts)] #[kani::stub(TwoFloat::new_add, g_new_add)] #[kani::stub(TwoFloat::new_sub, g_new_sub)] fn acc4_rsub_gap_p3() { acc4_case(2, 3) }
    #[kani::solver(kissat)] #[kani::unwind(6)] #[kani::stub(crate::arithmetic::fast_two_sum, g_fts)] #[kani::stub(TwoFloat::new_add, g_new_add)] #[kani::stub(TwoFloat::new_sub, g_new_sub)] fn acc4_rsub_gap_p4() { acc4_case(2, 4) }
    #[kani::solver(kissat)] #[kani::unwind(6)] #[kani::stub(crate::arithmetic::fast_two_sum, g_fts)] #[kani::stub(TwoFloat::new_add, g_new_add)] #[kani::stub(TwoFloat::new_sub, g_new_sub)] fn acc4_rsub_gap_p5() { acc4_case(2, 5) }
    #[kani::solver(kissat)] #[kani::unwind(6)] #[kani::stub(crate::arithmetic::fast_two_sum, g_fts)] #[kani::stub(TwoFloat::new_add, g_new_add)] #[kani::stub(TwoFloat::new_sub, g_new_sub)] fn acc4_rsub_gap_p6() { acc4_case(2, 6) }
    #[kani::solver(kissat)] #[kani::unwind(6)] #[kani::stub(crate::arithmetic::fast_two_sum, g_fts)] #[kani::stub(TwoFloat::new_add, g_new_add)] #[kani::stub(TwoFloat::new_sub, g_new_sub)] fn acc4_rsub_gap_p7() { acc4_case(2, 7) }
    #[kani::solver(kissat)] #[kani::unwind(6)] #[kani::stub(crate::arithmetic::fast_two_sum, g_fts)] #[kani::stub(TwoFloat::new_add, g_new_add)] #[kani::stub(TwoFloat::new_sub, g_new_sub)] fn acc4_rsub_gap_p8() { acc4_case(2, 8) }
    #[kani::solver(kissat)] #[kani::unwind(6)] #[kani::stub(crate::arithmetic::fast_two_sum, g_fts)] #[kani::stub(TwoFloat::new_add, g_new_add)] #[kani::stub(TwoFloat::new_sub, g_new_sub)] fn acc4_rsub_gap_p9() { acc4_case(2, 9) }
    #[kani::solver(kissat)] #[kani::unwind(6)] #[kani::stub(crate::arithmetic::fast_two_sum, g_fts)] #[kani::stub(TwoFloat::new_add, g_new_add)] #[kani::stub(TwoFloat::new_sub, g_new_sub)] fn acc4_rsub_gap_p10() { acc4_case(2, 10) }
    #[kani::solver(kissat)] #[kani::unwind(6)] #[kani::stub(crate::arithmetic::fast_two_sum, g_fts)] #[kani::stub(TwoFloat::new_add, g_new_add)] #[kani::stub(TwoFloat::new_sub, g_new_sub)] fn acc4_rsub_gap_p11() { acc4_case(2, 11) }
    #[kani::solver(kissat)] #[kani::unwind(6)] #[kani::stub(crate::arithmetic::fast_two_sum, g_fts)] #[kani::stub(TwoFloat::new_add, g_new_add)] #[kani::stub(TwoFloat::new_sub, g_new_sub)] fn acc4_rsub_gap_p12() { acc4_case(2, 12) }
    #[kani::solver(kissat)] #[kani::unwind(6)] #[kani::stub(crate::arithmetic::fast_two_sum, g_fts)] #[kani::stub(TwoFloat::new_add, g_new_add)] #[kani::stub(TwoFloat::new_sub, g_new_sub)] fn acc4_rsub_gap_p13() { acc4_case(2, 13) }
    #[kani::solver(kissat)] #[kani::unwind(6)] #[kani::stub(crate::arithmetic::fast_two_sum, g_fts)] #[kani::stub(TwoFloat::new_add, g_new_add)] #[kani::stub(TwoFloat::new_sub, g_new_sub)] fn acc4_rsub_gap_p14() { acc4_case(2, 14) }
    #[kani::solver(kissat)] #[kani::unwind(6)] #[kani::stub(crate::arithmetic::fast_two_sum, g_fts)] #[kani::stub(TwoFloat::new_add, g_new_add)] #[kani::stub(TwoFloat::new_sub, g_new_sub)] fn acc4_rsub_gap_p15() { acc4_case(2, 15) }
    #[kani::solver(kissat)] #[kani::unwind(6)] #[kani::stub(crate::arithmetic::fast_two_sum, g_fts)] #[kani::stub(TwoFloat::new_add, g_new_add)] #[kani::stub(TwoFloat::new_sub, g_new_sub)] fn acc4_rsub_gap_p16() { acc4_case(2, 16) }
    #[kani::solver(kissat)] #[kani::unwind(6)] #[kani::stub(crate::arithmetic::fast_two_sum, g_fts)] #[kani::stub(TwoFloat::new_add, g_new_add)] #[kani::stub(TwoFloat::new_sub, g_new_sub)] fn acc4_rsub_gap_p17() { acc4_case(2, 17) }
    #[kani::solver(kissat)] #[kani::unwind(6)] #[kani::stub(crate::arithmetic::fast_two_sum, g_fts)] #[kani::stub(TwoFloat::new_add, g_new_add)] #[kani::stub(TwoFloat::new_sub, g_new_sub)] fn acc4_rsub_gap_p18() { acc4_case(2, 18) }
    #[kani::solver(kissat)] #[kani::unwind(6)] #[kani::stub(crate::arithmetic::fast_two_sum, g_fts)] #[kani::stub(TwoFloat::new_add, g_new_add)] #[kani::stub(TwoFloat::new_sub, g_new_sub)] fn acc4_rsub_gap_p19() { acc4_case(2, 19) }
    #[kani::solver(kissat)] #[kani::unwind(6)] #[kani::stub(crate::arithmetic::fast_two_sum, g_fts)] #[kani::stub(TwoFloat::new_add, g_new_add)] #[kani::stub(TwoFloat::new_sub, g_new_sub)] fn acc4_rsub_gap_p20() { acc4_case(2, 20) }
    #[kani::solver(kissat)] #[kani::unwind(6)] #[kani::stub(crate::arithmetic::fast_two_sum, g_fts)] #[kani::stub(TwoFloat::new_add, g_new_add)] #[kani::stub(TwoFloat::new_sub, g_new_sub)] fn acc4_rsub_gap_p21() { acc4_case(2, 21) }
    #[kani::solver(kissat)] #[kani::unwind(6)] #[kani::stub(crate::arithmetic::fast_two_sum, g_fts)] #[kani::stub(TwoFloat::new_add, g_new_add)] #[kani::stub(TwoFloat::new_sub, g_new_sub)] fn acc4_rsub_gap_p22() { acc4_case(2, 22) }
    #[kani::solver(kissat)] #[kani::unwind(6)] #[kani::stub(crate::arithmetic::fast_two_sum, g_fts)] #[kani::stub(TwoFloat::new_add, g_new_add)] #[kani::stub(TwoFloat::new_sub, g_new_sub)] fn acc4_rsub_gap_p23() { acc4_case(2, 23) }
    #[kani::solver(kissat)] #[kani::unwind(6)] #[kani::stub(crate::arithmetic::fast_two_sum, g_fts)] #[kani::stub(TwoFloat::new_add, g_new_add)] #[kani::stub(TwoFloat::new_sub, g_new_sub)] fn acc4_rsub_gap_p24() { acc4_case(2, 24) }
    #[kani::solver(kissat)] #[kani::unwind(6)] #[kani::stub(crate::arithmetic::fast_two_sum, g_fts)] #[kani::stub(TwoFloat::new_add, g_new_add)] #[kani::stub(TwoFloat::new_sub, g_new_sub)] fn acc4_rsub_gap_p25() { acc4_case(2, 25) }
    #[kani::solver(kissat)] #[kani::unwind(6)] #[kani::stub(crate::arithmetic::fast_two_sum, g_fts)] #[kani::stub(TwoFloat::new_add, g_new_add)] #[kani::stub(TwoFloat::new_sub, g_new_sub)] fn acc4_rsub_gap_p26() { acc4_case(2, 26) }
    #[kani::solver(kissat)] #[kani::unwind(6)] #[kani::stub(crate::arithmetic::fast_two_sum, g_fts)] #[kani::stub(TwoFloat::new_add, g_new_add)] #[kani::stub(TwoFloat::new_sub, g_new_sub)] fn acc4_rsub_gap_p27() { acc4_case(2, 27) }
    #[kani::solver(kissat)] #[kani::unwind(6)] #[kani::stub(crate::arithmetic::fast_two_sum, g_fts)] #[kani::stub(TwoFloat::new_add, g_new_add)] #[kani::stub(TwoFloat::new_sub, g_new_sub)] fn acc4_rsub_gap_p28() { acc4_case(2, 28) }
    #[kani::solver(kissat)] #[kani::unwind(6)] #[kani::stub(crate::arithmetic::fast_two_sum, g_fts)] #[kani::stub(TwoFloat::new_add, g_new_add)] #[kani::stub(TwoFloat::new_sub, g_new_sub)] fn acc4_rsub_gap_p29() { acc4_case(2, 29) }
    #[kani::solver(kissat)] #[kani::unwind(6)] #[kani::stub(crate::arithmetic::fast_two_sum, g_fts)] #[kani::stub(TwoFloat::new_add, g_new_add)] #[kani::stub(TwoFloat::new_sub, g_new_sub)] fn acc4_rsub_gap_p30() { acc4_case(2, 30) }
    #[kani::solver(kissat)] #[kani::unwind(6)] #[kani::stub(crate::arithmetic::fast_two_sum, g_fts)] #[kani::stub(TwoFloat::new_add, g_new_add)] #[kani::stub(TwoFloat::new_sub, g_new_sub)] fn acc4_rsub_gap_p31() { acc4_case(2, 31) }
    #[kani::solver(kissat)] #[kani::unwind(6)] #[kani::stub(crate::arithmetic::fast_two_sum, g_fts)] #[kani::stub(TwoFloat::new_add, g_new_add)] #[kani::stub(TwoFloat::new_sub, g_new_sub)] fn acc4_rsub_gap_p32() { acc4_case(2, 32) }
    #[kani::solver(kissat)] #[kani::unwind(6)] #[kani::stub(crate::arithmetic::fast_two_sum, g_fts)] #[kani::stub(TwoFloat::new_add, g_new_add)] #[kani::stub(TwoFloat::new_sub, g_new_sub)] fn acc4_rsub_gap_p33() { acc4_case(2, 33) }
    #[kani::solver(kissat)] #[kani::unwind(6)] #[kani::stub(crate::arithmetic::fast_two_sum, g_fts)] #[kani::stub(TwoFloat::new_add, g_new_add)] #[kani::stub(TwoFloat::new_sub, g_new_sub)] fn acc4_rsub_gap_p34() { acc4_case(2, 34) }
    #[kani::solver(kissat)] #[kani::unwind(6)] #[kani::stub(crate::arithmetic::fast_two_sum, g_fts)] #[kani::stub(TwoFloat::new_add, g_new_add)] #[kani::stub(TwoFloat::new_sub, g_new_sub)] fn acc4_rsub_gap_p35() { acc4_case(2, 35) }
    #[kani::solver(kissat)] #[kani::unwind(6)] #[kani::stub(crate::arithmetic::fast_two_sum, g_fts)] #[kani::stub(TwoFloat::new_add, g_new_add)] #[kani::stub(TwoFloat::new_sub, g_new_sub)] fn acc4_rsub_gap_p36() { acc4_case(2, 36) }
    #[kani::solver(kissat)] #[kani::unwind(6)] #[kani::stub(crate::arithmetic::fast_two_sum, g_fts)] #[kani::stub(TwoFloat::new_add, g_new_add)] #[kani::stub(TwoFloat::new_sub, g_new_sub)] fn acc4_rsub_gap_p37() { acc4_case(2, 37) }
    #[kani::solver(kissat)] #[kani::unwind(6)] #[kani::stub(crate::arithmetic::fast_two_sum, g_fts)] #[kani::stub(TwoFloat::new_add, g_new_add)] #[kani::stub(TwoFloat::new_sub, g_new_sub)] fn acc4_rsub_gap_p38() { acc4_case(2, 38) }
    #[kani::solver(kissat)] #[kani::unwind(6)] #[kani::stub(crate::arithmetic::fast_two_sum, g_fts)] #[kani::stub(TwoFloat::new_add, g_new_add)] #[kani::stub(TwoFloat::new_sub, g_new_sub)] fn acc4_rsub_gap_p39() { acc4_case(2, 39) }
    #[kani::solver(kissat)] #[kani::unwind(6)] #[kani::stub(crate::arithmetic::fast_two_sum, g_fts)] #[kani::stub(TwoFloat::new_add, g_new_add)] #[kani::stub(TwoFloat::new_sub, g_new_sub)] fn acc4_rsub_gap_p40() { acc4_case(2, 40) }
    #[kani::solver(kissat)] #[kani::unwind(6)] #[kani::stub(crate::arithmetic::fast_two_sum, g_fts)] #[kani::stub(TwoFloat::new_add, g_new_add)] #[kani::stub(TwoFloat::new_sub, g_new_sub)] fn acc4_rsub_gap_p41() { acc4_case(2, 41) }
    #[kani::solver(kissat)] #[kani::unwind(6)] #[kani::stub(crate::arithmetic::fast_two_sum, g_fts)] #[kani::stub(TwoFloat::new_add, g_new_add)] #[kani::stub(TwoFloat::new_sub, g_new_sub)] fn acc4_rsub_gap_p42() { acc4_case(2, 42) }
    #[kani::solver(kissat)] #[kani::unwind(6)] #[kani::stub(crate::arithmetic::fast_two_sum, g_fts)] #[kani::stub(TwoFloat::new_add, g_new_add)] #[kani::stub(TwoFloat::new_sub, g_new_sub)] fn acc4_rsub_gap_p43() { acc4_case(2, 43) }
    #[kani::solver(kissat)] #[kani::unwind(6)] #[kani::stub(crate::arithmetic::fast_two_sum, g_fts)] #[kani::stub(TwoFloat::new_add, g_new_add)] #[kani::stub(TwoFloat::new_sub, g_new_sub)] fn acc4_rsub_gap_p44() { acc4_case(2, 44) }
    #[kani::solver(kissat)] #[kani::unwind(6)] #[kani::stub(crate::arithmetic::fast_two_sum, g_fts)] #[kani::stub(TwoFloat::new_add, g_new_add)] #[kani::stub(TwoFloat::new_sub, g_new_sub)] fn acc4_rsub_gap_p45() { acc4_case(2, 45) }
    #[kani::solver(kissat)] #[kani::unwind(6)] #[kani::stub(crate::arithmetic::fast_two_sum, g_fts)] #[kani::stub(TwoFloat::new_add, g_new_add)] #[kani::stub(TwoFloat::new_sub, g_new_sub)] fn acc4_rsub_gap_p46() { acc4_case(2, 46) }
    #[kani::solver(kissat)] #[kani::unwind(6)] #[kani::stub(crate::arithmetic::fast_two_sum, g_fts)] #[kani::stub(TwoFloat::new_add, g_new_add)] #[kani::stub(TwoFloat::new_sub, g_new_sub)] fn acc4_rsub_gap_p47() { acc4_case(2, 47) }
    #[kani::solver(kissat)] #[kani::unwind(6)] #[kani::stub(crate::arithmetic::fast_two_sum, g_fts)] #[kani::stub(TwoFloat::new_add, g_new_add)] #[kani::stub(TwoFloat::new_sub, g_new_sub)] fn acc4_rsub_gap_p48() { acc4_case(2, 48) }
    #[kani::solver(kissat)] #[kani::unwind(6)] #[kani::stub(crate::arithmetic::fast_two_sum, g_fts)] #[kani::stub(TwoFloat::new_add, g_new_add)] #[kani::stub(TwoFloat::new_sub, g_new_sub)] fn acc4_rsub_gap_p49() { acc4_case(2, 49) }
    #[kani::solver(kissat)] #[kani::unwind(6)] #[kani::stub(crate::arithmetic::fast_two_sum, g_fts)] #[kani::stub(TwoFloat::new_add, g_new_add)] #[kani::stub(TwoFloat::new_sub, g_new_sub)] fn acc4_rsub_gap_p50() { acc4_case(2, 50) }
    #[kani::solver(kissat)] #[kani::unwind(6)] #[kani::stub(crate::arithmetic::fast_two_sum, g_fts)] #[kani::stub(TwoFloat::new_add, g_new_add)] #[kani::stub(TwoFloat::new_sub, g_new_sub)] fn acc4_rsub_gap_p51() { acc4_case(2, 51) }
    #[kani::solver(kissat)] #[kani::unwind(6)] #[kani::stub(crate::arithmetic::fast_two_sum, g_fts)] #[kani::stub(TwoFloat::new_add, g_new_add)] #[kani::stub(TwoFloat::new_sub, g_new_sub)] fn acc4_rsub_gap_p52() { acc4_case(2, 52) }
    #[kani::solver(kissat)] #[kani::unwind(6)] #[kani::stub(crate::arithmetic::fast_two_sum, g_fts)] #[kani::stub(TwoFloat::new_add, g_new_add)] #[kani::stub(TwoFloat::new_sub, g_new_sub)] fn acc4_rsub_gap_p53() { acc4_case(2, 53) }
    #[kani::solver(kissat)] #[kani::unwind(6)] #[kani::stub(crate::arithmetic::fast_two_sum, g_fts)] #[kani::stub(TwoFloat::new_add, g_new_add)] #[kani::stub(TwoFloat::new_sub, g_new_sub)] fn acc4_rsub_gap_p54() { acc4_case(2, 54) }
    #[kani::solver(kissat)] #[kani::unwind(6)] #[kani::stub(crate::arithmetic::fast_two_sum, g_fts)] #[kani::stub(TwoFloat::new_add, g_new_add)] #[kani::stub(TwoFloat::new_sub, g_new_sub)] fn acc4_rsub_gap_p55() { acc4_case(2, 55) }
    #[kani::solver(kissat)] #[kani::unwind(6)] #[kani::stub(crate::arithmetic::fast_two_sum, g_fts)] #[kani::stub(TwoFloat::new_add, g_new_add)] #[kani::stub(TwoFloat::new_sub, g_new_sub)] fn acc4_rsub_gap_p56() { acc4_case(2, 56) }
    #[kani::solver(kissat)] #[kani::unwind(6)] #[kani::stub(crate::arithmetic::fast_two_sum, g_fts)] #[kani::stub(TwoFloat::new_add, g_new_add)] #[kani::stub(TwoFloat::new_sub, g_new_sub)] fn acc4_rsub_gap_p57() { acc4_case(2, 57) }
    #[kani::solver(kissat)] #[kani::unwind(6)] #[kani::stub(crate::arithmetic::fast_two_sum, g_fts)] #[kani::stub(TwoFloat::new_add, g_new_add)] #[kani::stub(TwoFloat::new_sub, g_new_sub)] fn acc4_rsub_gap_p58() { acc4_case(2, 58) }
    #[kani::solver(kissat)] #[kani::unwind(6)] #[kani::stub(crate::arithmetic::fast_two_sum, g_fts)] #[kani::stub(TwoFloat::new_add, g_new_add)] #[kani::stub(TwoFloat::new_sub, g_new_sub)] fn acc4_rsub_gap_p59() { acc4_case(2, 59) }
    #[kani::solver(kissat)] #[kani::unwind(6)] #[kani::stub(crate::arithmetic::fast_two_sum, g_fts)] #[kani::stub(TwoFloat::new_add, g_new_add)] #[kani::stub(TwoFloat::new_sub, g_new_sub)] fn acc4_rsub_gap_p60() { acc4_case(2, 60) }
    #[kani::solver(kissat)] #[kani::unwind(6)] #[kani::stub(crate::arithmetic::fast_two_sum, g_fts)] #[kani::stub(TwoFloat::new_add, g_new_add)] #[kani::stub(TwoFloat::new_sub, g_new_sub)] fn acc4_rsub_far_p() { acc4_case(2, 1000) }
    #[kani::solver(kissat)] #[kani::unwind(6)] #[kani::stub(crate::arithmetic::fast_two_sum, g_fts)] #[kani::stub(TwoFloat::new_add, g_new_add)] #[kani::stub(TwoFloat::new_sub, g_new_sub)] fn acc4_rsub_far_m() { acc4_case(2, -1000) }

    #[kani::solver(kissat)] #[kani::stub(crate::arithmetic::fast_two_sum, s_fts)] #[kani::stub(TwoFloat::new_add, s_new_add)] #[kani::stub(TwoFloat::new_sub, s_new_sub)]
    fn zero_sum_add_tf_tf() { zero_sum_case(0) }
    #[kani::solver(kissat)] #[kani::stub(crate::arithmetic::fast_two_sum, s_fts)] #[kani::stub(TwoFloat::new_add, s_new_add)] #[kani::stub(TwoFloat::new_sub, s_new_sub)]
    fn zero_sum_sub_tf_tf() { zero_sum_case(1) }
    #[kani::solver(kissat)] #[kani::stub(crate::arithmetic::fast_two_sum, s_fts)] #[kani::stub(TwoFloat::new_add, s_new_add)] #[kani::stub(TwoFloat::new_sub, s_new_sub)]
    fn zero_sum_add_tf_f64() { zero_sum_case(2) }
    #[kani::solver(kissat)] #[kani::stub(crate::arithmetic::fast_two_sum, s_fts)] #[kani::stub(TwoFloat::new_add, s_new_add)] #[kani::stub(TwoFloat::new_sub, s_new_sub)]
    fn zero_sum_add_f64_tf() { zero_sum_case(3) }
    #[kani::solver(kissat)] #[kani::stub(crate::arithmetic::fast_two_sum, s_fts)] #[kani::stub(TwoFloat::new_add, s_new_add)] #[kani::stub(TwoFloat::new_sub, s_new_sub)]
    fn zero_sum_sub_tf_f64() { zero_sum_case(4) }
    #[kani::solver(kissat)] #[kani::stub(crate::arithmetic::fast_two_sum, s_fts)] #[kani::stub(TwoFloat::new_add, s_new_add)] #[kani::stub(TwoFloat::new_sub, s_new_sub)]
    fn zero_sum_sub_f64_tf() { zero_sum_case(5) }
    #[kani::solver(kissat)] #[kani::stub(crate::arithmetic::fast_two_sum, s_fts)] #[kani::stub(TwoFloat::new_add, s_new_add)] #[kani::stub(TwoFloat::new_sub, s_new_sub)]
    fn zero_sum_add_assign() { zero_sum_case(6) }
    #[kani::solver(kissat)] #[kani::stub(crate::arithmetic::fast_two_sum, s_fts)] #[kani::stub(TwoFloat::new_add, s_new_add)] #[kani::stub(TwoFloat::new_sub, s_new_sub)]
    fn zero_sum_sub_assign() { zero_sum_case(7) }
}
