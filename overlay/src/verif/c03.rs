//! C03 — addition and subtraction meet the proven double-word error bounds.
//!
//! Decomposition (DESIGN section 6, C03):
//!  (a) every operator / compound-assignment body is bit-identical, for all
//!      operand patterns, to the published algorithm (Joldes-Muller-Popescu
//!      2017, Alg. 4 DWPlusFP resp. Alg. 6 AccurateDWPlusDW) composed of the
//!      contracted leaves `new_add`/`new_sub`/`fast_two_sum`   [this file, `alg_*`];
//!  (b) the leaves are error-free transformations                [c02.rs];
//!  (c) the algorithm's error bound: assumed lemma (published theorem,
//!      formalised in Coq by Muller-Rideau 2022); for Alg. 4 additionally
//!      mechanised here per exponent gap with ghost values        [`acc4_*`].
//! Natively (replay) every obligation is judged by the bound itself in `Fix`.
use super::contracts::*;
use super::spec::fix::{fx, Fix};
use super::spec::win::{W, X, Y};
use super::spec::*;
use crate::arithmetic::fast_two_sum;
use crate::TwoFloat;

// ---- the published algorithms, over the contracted leaves
pub fn alg4(xh: f64, xl: f64, y: f64) -> TwoFloat {
    let s = TwoFloat::new_add(xh, y);
    let v = xl + s.lo;
    fast_two_sum(s.hi, v)
}
/// x - y
pub fn alg4_sub(xh: f64, xl: f64, y: f64) -> TwoFloat {
    let s = TwoFloat::new_sub(xh, y);
    let v = xl + s.lo;
    fast_two_sum(s.hi, v)
}
/// y - x
pub fn alg4_rsub(y: f64, xh: f64, xl: f64) -> TwoFloat {
    let s = TwoFloat::new_sub(y, xh);
    let v = s.lo - xl;
    fast_two_sum(s.hi, v)
}
pub fn alg6(xh: f64, xl: f64, yh: f64, yl: f64, sub: bool) -> TwoFloat {
    let s = if sub { TwoFloat::new_sub(xh, yh) } else { TwoFloat::new_add(xh, yh) };
    let t = if sub { TwoFloat::new_sub(xl, yl) } else { TwoFloat::new_add(xl, yl) };
    let c = s.lo + t.hi;
    let v = fast_two_sum(s.hi, c);
    let w = t.lo + v.lo;
    fast_two_sum(v.hi, w)
}

/// |r - exact| <= num * 2^-sh * |exact|, exact = x + sy * y  (Layer 1)
pub fn bound_ok(r: &TwoFloat, x: Fix, y: Fix, sub: bool, num: u64, sh: usize) -> bool {
    if !(r.hi.is_finite() && r.lo.is_finite()) { return false; }
    let exact = if sub { x.sub(y) } else { x.add(y) };
    Fix::rel_le(val(r).sub(exact), exact, num, sh)
}
/// 3 * 2^-106 + 13 * 2^-159 == (3 * 2^53 + 13) * 2^-159
pub const K6: u64 = 3 * (1u64 << 53) + 13;

#[derive(Clone, Copy, PartialEq)]
pub enum Form { Op, Assign }

// ---- bounded domain B(k) used by the witness-search / bounded stand-in obligations:
// significands of k bits, high words in [2^-30, 2^30], low words 0 or >= 2^-140
pub const BK: u32 = 12;
pub const ANCH: i32 = 1075 - 200; // window unit 2^-200
pub fn short_k(x: f64, k: u32) -> bool { x.to_bits() & ((1u64 << (52 - k)) - 1) == 0 }
pub fn bhi(x: f64) -> bool { short_k(x, BK) && x.abs() >= 9.313225746154785e-10 && x.abs() <= 1073741824.0 }
pub fn blo(x: f64) -> bool { short_k(x, BK) && (x == 0.0 || x.abs() >= 7.174648137343064e-43) }
/// |zh + zl - e| * 2^sh <= num * |e| in a 512-bit window anchored at 2^-200 (e, zh, zl multiples of the unit)
pub fn bound_win(r: &TwoFloat, terms: [f64; 4], neg: [bool; 4], num: u64, sh: u32) -> bool {
    let mut e = Y::zero();
    let mut i = 0;
    while i < 4 {
        match Y::at(terms[i], ANCH, 260) { Some(v) => { e = if neg[i] { e.sub(v) } else { e.add(v) }; } None => return false }
        i += 1;
    }
    match (Y::at(r.hi, ANCH, 260), Y::at(r.lo, ANCH, 260)) {
        (Some(zh), Some(zl)) => zh.add(zl).sub(e).abs().shl(sh).le(e.abs().mul_small(num)),
        _ => false,
    }
}

/// TwoFloat (+|-) f64 and f64 (+|-) TwoFloat: body == Alg. 4 (solver) / 2u^2 bound (native)
fn tf_f64_case(sub: bool, f64_left: bool, form: Form) {
    let x = any_tf(); let y = any_f64!();
    #[cfg(not(kani))]
    { vassume!(valid(x.hi, x.lo) && in1000(x.hi) && in1000(y)); }
    let r = match (sub, f64_left, form) {
        (false, false, Form::Op) => &x + &y,
        (false, true, _) => &y + &x,
        (true, false, Form::Op) => &x - &y,
        (true, true, _) => &y - &x,
        (false, false, Form::Assign) => { let mut t = x; t += &y; t }
        (true, false, Form::Assign) => { let mut t = x; t -= &y; t }
    };
    #[cfg(kani)]
    {
        let e = match (sub, f64_left) {
            (false, _) => alg4(x.hi, x.lo, y),
            (true, false) => alg4_sub(x.hi, x.lo, y),
            (true, true) => alg4_rsub(y, x.hi, x.lo),
        };
        vassert!(same_tf(&r, &e), "operator body is bit-identical to Algorithm 4 (DWPlusFP) over the contracted leaves");
    }
    #[cfg(not(kani))]
    {
        let (a, b) = if f64_left { (fx(y), val(&x)) } else { (val(&x), fx(y)) };
        vassert!(bound_ok(&r, a, b, sub, 2, 106), "TwoFloat +- f64 within 2 * 2^-106 of the exact sum");
    }
}

/// TwoFloat (+|-) TwoFloat: body == Alg. 6 (solver) / 3u^2 + 13u^3 bound (native)
fn tf_tf_case(sub: bool, form: Form) {
    let x = any_tf(); let y = any_tf();
    #[cfg(not(kani))]
    { vassume!(valid(x.hi, x.lo) && valid(y.hi, y.lo) && in1000(x.hi) && in1000(y.hi)); }
    let r = match (sub, form) {
        (false, Form::Op) => &x + &y,
        (true, Form::Op) => &x - &y,
        (false, Form::Assign) => { let mut t = x; t += &y; t }
        (true, Form::Assign) => { let mut t = x; t -= &y; t }
    };
    #[cfg(kani)]
    { vassert!(same_tf(&r, &alg6(x.hi, x.lo, y.hi, y.lo, sub)), "operator body is bit-identical to Algorithm 6 (AccurateDWPlusDW) over the contracted leaves"); }
    #[cfg(not(kani))]
    { vassert!(bound_ok(&r, val(&x), val(&y), sub, K6, 159), "TwoFloat +- TwoFloat within 3 * 2^-106 + 13 * 2^-159 of the exact sum"); }
}

/// bounded stand-in / witness search: the error bound itself on the real operator, domain B(12)
fn bound_tf_f64_case(sub: bool, f64_left: bool, form: Form) {
    let x = any_valid(); let y = any_f64!();
    vassume!(bhi(x.hi) && blo(x.lo) && bhi(y));
    let r = match (sub, f64_left, form) {
        (false, false, Form::Op) => &x + &y,
        (false, true, _) => &y + &x,
        (true, false, Form::Op) => &x - &y,
        (true, true, _) => &y - &x,
        (false, false, Form::Assign) => { let mut t = x; t += &y; t }
        (true, false, Form::Assign) => { let mut t = x; t -= &y; t }
    };
    #[cfg(kani)]
    { vassert!(bound_win(&r, [x.hi, x.lo, y, 0.0], [sub && f64_left, sub && f64_left, sub && !f64_left, false], 2, 106), "TwoFloat +- f64 within 2 * 2^-106 of the exact sum"); }
    #[cfg(not(kani))]
    {
        let (a, b) = if f64_left { (fx(y), val(&x)) } else { (val(&x), fx(y)) };
        vassert!(bound_ok(&r, a, b, sub, 2, 106), "TwoFloat +- f64 within 2 * 2^-106 of the exact sum");
    }
    vcover!(x.lo != 0.0 && r.lo != 0.0, "non-trivial operands reachable");
}
fn bound_tf_tf_case(sub: bool, form: Form) {
    let x = any_valid(); let y = any_valid();
    vassume!(bhi(x.hi) && blo(x.lo) && bhi(y.hi) && blo(y.lo));
    let r = match (sub, form) {
        (false, Form::Op) => &x + &y,
        (true, Form::Op) => &x - &y,
        (false, Form::Assign) => { let mut t = x; t += &y; t }
        (true, Form::Assign) => { let mut t = x; t -= &y; t }
    };
    #[cfg(kani)]
    { vassert!(bound_win(&r, [x.hi, x.lo, y.hi, y.lo], [false, false, sub, sub], K6, 159), "TwoFloat +- TwoFloat within 3 * 2^-106 + 13 * 2^-159 of the exact sum"); }
    #[cfg(not(kani))]
    { vassert!(bound_ok(&r, val(&x), val(&y), sub, K6, 159), "TwoFloat +- TwoFloat within 3 * 2^-106 + 13 * 2^-159 of the exact sum"); }
    vcover!(x.lo != 0.0 && y.lo != 0.0 && r.lo != 0.0, "non-trivial operands reachable");
}

/// an exactly-zero sum yields zero.  For valid operands the exact sum is zero iff the
/// second operand is the word-wise negation of the first (normalised representations are
/// unique: hi = RN(value)); natively the premise is the definitional one.
fn zero_sum_case(kind: u8) {
    let x = any_valid();
    vassume!(in1000(x.hi));
    let r = match kind {
        0 => x + (-x),
        1 => x - x,
        2 => { vassume!(x.lo == 0.0); x + (-x.hi) }
        3 => { vassume!(x.lo == 0.0); (-x.hi) + x }
        4 => { vassume!(x.lo == 0.0); x - x.hi }
        5 => { vassume!(x.lo == 0.0); x.hi - x }
        6 => { let mut t = x; t += -x; t }
        _ => { let mut t = x; t -= x; t }
    };
    vassert!(r.hi == 0.0 && r.lo == 0.0, "an exactly-zero sum yields (0, 0)");
    vcover!(x.hi != 0.0, "non-zero operand reachable");
}

harnesses! {
    #[kani::solver(cvc5)] fn alg4_add_tf_f64() { tf_f64_case(false, false, Form::Op) }
    #[kani::solver(cvc5)] fn alg4_add_f64_tf() { tf_f64_case(false, true, Form::Op) }
    #[kani::solver(cvc5)] fn alg4_sub_tf_f64() { tf_f64_case(true, false, Form::Op) }
    #[kani::solver(cvc5)] fn alg4_sub_f64_tf() { tf_f64_case(true, true, Form::Op) }
    #[kani::solver(cvc5)] fn alg4_add_assign_f64() { tf_f64_case(false, false, Form::Assign) }
    #[kani::solver(cvc5)] fn alg4_sub_assign_f64() { tf_f64_case(true, false, Form::Assign) }
    #[kani::solver(cvc5)] fn alg6_add_tf_tf() { tf_tf_case(false, Form::Op) }
    #[kani::solver(cvc5)] fn alg6_sub_tf_tf() { tf_tf_case(true, Form::Op) }
    #[kani::solver(cvc5)] fn alg6_add_assign_tf() { tf_tf_case(false, Form::Assign) }
    #[kani::solver(cvc5)] fn alg6_sub_assign_tf() { tf_tf_case(true, Form::Assign) }

    // bounded stand-ins B(12) / witness search for the miters above (real, un-stubbed operators)
    #[kani::solver(kissat)] #[kani::unwind(70)] fn bound_add_tf_f64() { bound_tf_f64_case(false, false, Form::Op) }
    #[kani::solver(kissat)] #[kani::unwind(70)] fn bound_add_f64_tf() { bound_tf_f64_case(false, true, Form::Op) }
    #[kani::solver(kissat)] #[kani::unwind(70)] fn bound_sub_tf_f64() { bound_tf_f64_case(true, false, Form::Op) }
    #[kani::solver(kissat)] #[kani::unwind(70)] fn bound_sub_f64_tf() { bound_tf_f64_case(true, true, Form::Op) }
    #[kani::solver(kissat)] #[kani::unwind(70)] fn bound_add_assign_f64() { bound_tf_f64_case(false, false, Form::Assign) }
    #[kani::solver(kissat)] #[kani::unwind(70)] fn bound_sub_assign_f64() { bound_tf_f64_case(true, false, Form::Assign) }
    #[kani::solver(kissat)] #[kani::unwind(70)] fn bound_add_tf_tf() { bound_tf_tf_case(false, Form::Op) }
    #[kani::solver(kissat)] #[kani::unwind(70)] fn bound_sub_tf_tf() { bound_tf_tf_case(true, Form::Op) }
    #[kani::solver(kissat)] #[kani::unwind(70)] fn bound_add_assign_tf() { bound_tf_tf_case(false, Form::Assign) }
    #[kani::solver(kissat)] #[kani::unwind(70)] fn bound_sub_assign_tf() { bound_tf_tf_case(true, Form::Assign) }

    #[kani::solver(kissat)] #[kani::stub(crate::arithmetic::fast_two_sum, s_fts)] #[kani::stub(TwoFloat::new_add, s_new_add)] #[kani::stub(TwoFloat::new_sub, s_new_sub)]
    fn zero_sum_add_tf_tf() { zero_sum_case(0) }
    #[kani::solver(kissat)] #[kani::stub(crate::arithmetic::fast_two_sum, s_fts)] #[kani::stub(TwoFloat::new_add, s_new_add)] #[kani::stub(TwoFloat::new_sub, s_new_sub)]
    fn zero_sum_sub_tf_tf() { zero_sum_case(1) }
    #[kani::solver(kissat)] #[kani::stub(crate::arithmetic::fast_two_sum, s_fts)] #[kani::stub(TwoFloat::new_add, s_new_add)] #[kani::stub(TwoFloat::new_sub, s_new_sub)]
    fn zero_sum_add_tf_f64() { zero_sum_case(2) }
    #[kani::solver(kissat)] #[kani::stub(crate::arithmetic::fast_two_sum, s_fts)] #[kani::stub(TwoFloat::new_add, s_new_add)] #[kani::stub(TwoFloat::new_sub, s_new_sub)]
    fn zero_sum_add_f64_tf() { zero_sum_case(3) }
    #[kani::solver(kissat)] #[kani::stub(crate::arithmetic::fast_two_sum, s_fts)] #[kani::stub(TwoFloat::new_add, s_new_add)] #[kani::stub(TwoFloat::new_sub, s_new_sub)]
    fn zero_sum_sub_tf_f64() { zero_sum_case(4) }
    #[kani::solver(kissat)] #[kani::stub(crate::arithmetic::fast_two_sum, s_fts)] #[kani::stub(TwoFloat::new_add, s_new_add)] #[kani::stub(TwoFloat::new_sub, s_new_sub)]
    fn zero_sum_sub_f64_tf() { zero_sum_case(5) }
    #[kani::solver(kissat)] #[kani::stub(crate::arithmetic::fast_two_sum, s_fts)] #[kani::stub(TwoFloat::new_add, s_new_add)] #[kani::stub(TwoFloat::new_sub, s_new_sub)]
    fn zero_sum_add_assign() { zero_sum_case(6) }
    #[kani::solver(kissat)] #[kani::stub(crate::arithmetic::fast_two_sum, s_fts)] #[kani::stub(TwoFloat::new_add, s_new_add)] #[kani::stub(TwoFloat::new_sub, s_new_sub)]
    fn zero_sum_sub_assign() { zero_sum_case(7) }
}
