//! C16 / C17 / C18 — trigonometric, inverse trigonometric and hyperbolic functions: totality,
//! invalid-argument propagation, consistency of sin_cos, axis conventions of atan2, exact points.
use super::contracts::*;
use super::spec::*;
use crate::{consts, TwoFloat};

pub mod solver {
    use super::*;
    hv_harnesses! {
        /// sin, cos, tan, sin_cos: an invalid argument gives an invalid result; no panic on any argument
        #[kani::solver(kissat)] #[kani::unwind(20)] #[kani::stub(<&TwoFloat as core::ops::Sub<&f64>>::sub, h_tf)]
        #[kani::stub(TwoFloat::round, h_unary)] #[kani::stub(TwoFloat::trunc, h_unary)]
        fn trig_invalid_and_total() {
            let x = any_tf();
            let (s, c, t) = (x.sin(), x.cos(), x.tan());
            let (s2, c2) = x.sin_cos();
            if !valid(x.hi, x.lo) {
                vassert!(!valid(s.hi, s.lo) && !valid(c.hi, c.lo) && !valid(t.hi, t.lo) && !valid(s2.hi, s2.lo) && !valid(c2.hi, c2.lo), "invalid argument gives an invalid result");
            }
            vcover!(valid(x.hi, x.lo) && x.hi > 1.0, "reduction path reachable");
        }
        /// asin / acos of |x| > 1 or of an invalid x are invalid; asin, acos, atan, atan2 never panic
        #[kani::solver(kissat)] #[kani::unwind(20)] #[kani::stub(<&TwoFloat as core::ops::Sub<&f64>>::sub, h_tf)]
        #[kani::stub(TwoFloat::sqrt, h_unary)]
        fn inverse_trig_domain() {
            let x = any_tf(); let y = any_valid();
            let (a, b) = (x.asin(), x.acos());
            let _ = (x.atan(), y.atan2(x));
            let v = valid(x.hi, x.lo);
            if !v || x.hi > 1.0 || x.hi < -1.0 || (x.hi == 1.0 && x.lo > 0.0) || (x.hi == -1.0 && x.lo < 0.0) {
                vassert!(!valid(a.hi, a.lo) && !valid(b.hi, b.lo), "asin/acos outside [-1, 1] or of an invalid value are invalid");
            }
            vcover!(v && x.hi == 1.0 && x.lo > 0.0, "just above 1 reachable");
        }
        /// atan2 on the axes returns exactly 0, +-pi/2, +-pi following the signs of the operands
        #[kani::solver(kissat)] #[kani::unwind(20)] #[kani::stub(TwoFloat::atan, h_unary)]
        fn atan2_axes() {
            let y = any_valid(); let x = any_valid();
            let r = y.atan2(x);
            if y.hi == 0.0 {
                if x.hi > 0.0 || (x.hi == 0.0 && x.hi.is_sign_positive()) { vassert!(r.hi == 0.0 && r.lo == 0.0, "atan2(+-0, x >= +0) == 0"); }
                else if y.hi.is_sign_positive() { vassert!(same_tf(&r, &consts::PI), "atan2(+0, x < 0) == pi"); }
                else { vassert!(r.hi == -consts::PI.hi && r.lo == -consts::PI.lo, "atan2(-0, x < 0) == -pi"); }
            } else if x.hi == 0.0 {
                if y.hi > 0.0 { vassert!(same_tf(&r, &consts::FRAC_PI_2), "atan2(y > 0, 0) == pi/2"); }
                else { vassert!(r.hi == -consts::FRAC_PI_2.hi && r.lo == -consts::FRAC_PI_2.lo, "atan2(y < 0, 0) == -pi/2"); }
            }
            vcover!(y.hi == 0.0 && x.hi < 0.0, "negative x axis reachable");
        }
        /// hyperbolic functions never panic on valid arguments (exp / ln / sqrt value-independent)
        #[kani::solver(kissat)] #[kani::unwind(20)] #[kani::stub(<&TwoFloat as core::ops::Sub<&f64>>::sub, h_tf)]
        #[kani::stub(TwoFloat::exp, h_unary)] #[kani::stub(TwoFloat::ln, h_unary)] #[kani::stub(TwoFloat::sqrt, h_unary)]
        fn hyperbolic_total() {
            let x = any_valid();
            let _ = (x.sinh(), x.cosh(), x.tanh(), x.asinh(), x.acosh(), x.atanh());
            vcover!(x.hi > 1.0, "reachable");
        }
    }
}

harnesses! {
    /// sin_cos(x) == (sin(x), cos(x)) bit for bit: the three quadrant dispatch tables agree (argument reduction and the
    /// two restricted polynomials are arbitrary fixed functions)
    #[kani::solver(kissat)] #[kani::stub(crate::base::no_overlap, s_no_overlap)]
    #[kani::stub(crate::functions::trigonometry::quadrant, ack_quadrant)]
    #[kani::stub(crate::functions::trigonometry::restricted_sin, ack_rsin)] #[kani::stub(crate::functions::trigonometry::restricted_cos, ack_rcos)]
    fn sin_cos_consistent() {
        let x = any_tf();
        let (s, c) = x.sin_cos();
        vassert!(same_tf(&s, &x.sin()), "sin_cos(x).0 == sin(x) bit for bit");
        vassert!(same_tf(&c, &x.cos()), "sin_cos(x).1 == cos(x) bit for bit");
    }
    /// exact points of C16, C17, C18 (ground, native)
    fn exact_points() {
        let z = TwoFloat::from(0.0); let one = TwoFloat::from(1.0);
        let is0 = |r: TwoFloat| r.hi() == 0.0 && r.lo() == 0.0;
        vassert!(is0(z.sin()) && is0(z.tan()) && same_tf(&z.cos(), &one), "sin(0) == 0, cos(0) == 1, tan(0) == 0");
        let (s, c) = z.sin_cos();
        vassert!(is0(s) && same_tf(&c, &one), "sin_cos(0) == (0, 1)");
        vassert!(is0(z.asin()) && is0(z.atan()) && is0(one.acos()), "asin(0) == atan(0) == acos(1) == 0");
        let tol = 7.888609052210118e-31; // 2^-100
        vassert!((one.asin() - consts::FRAC_PI_2).abs() < tol && ((-one).asin() + consts::FRAC_PI_2).abs() < tol, "asin(+-1) == +-pi/2 to 2^-100");
        vassert!(((-one).acos() - consts::PI).abs() < tol * 2.0, "acos(-1) == pi to 2^-100");
        vassert!(!TwoFloat::from(1.5).asin().is_valid() && !TwoFloat::from(-1.5).acos().is_valid(), "asin/acos of |x| > 1 invalid");
        vassert!(is0(z.sinh()) && is0(z.tanh()) && is0(z.asinh()) && is0(z.atanh()) && is0(one.acosh()) && same_tf(&z.cosh(), &one), "sinh(0) = tanh(0) = asinh(0) = atanh(0) = acosh(1) = 0, cosh(0) = 1");
        vassert!(!TwoFloat::from(0.5).acosh().is_valid() && !TwoFloat::from(-3.0).acosh().is_valid(), "acosh(x < 1) invalid");
        vassert!(!one.atanh().is_valid() && !TwoFloat::from(-1.0).atanh().is_valid() && !TwoFloat::from(2.0).atanh().is_valid(), "atanh(|x| >= 1) invalid");
        // atan2 axis table
        let m = TwoFloat::from(-1.0); let nz = TwoFloat::from(-0.0);
        vassert!(same_tf(&z.atan2(m), &consts::PI) && same_tf(&nz.atan2(m), &(-consts::PI)) && is0(z.atan2(one)), "atan2(+-0, x)");
        vassert!(same_tf(&one.atan2(z), &consts::FRAC_PI_2) && same_tf(&m.atan2(z), &(-consts::FRAC_PI_2)), "atan2(y, 0)");
        // tabulated additive constants of atan read through exact reductions
        let e = |i: usize| TwoFloat { hi: f64::from_bits(super::c12_data::EXPECTED[i].1), lo: f64::from_bits(super::c12_data::EXPECTED[i].2) };
        let a12 = TwoFloat::from(0.5).atan(); let a32 = TwoFloat::from(1.5).atan(); let a1 = one.atan();
        vassert!(a12.hi() == e(21).hi() && a12.lo() == e(21).lo(), "atan(1/2) is the correctly rounded double-double");
        vassert!(a32.hi() == e(22).hi() && a32.lo() == e(22).lo(), "atan(3/2) is the correctly rounded double-double");
        vassert!(a1.hi() == consts::FRAC_PI_4.hi() && a1.lo() == consts::FRAC_PI_4.lo(), "atan(1) == pi/4");
    }
}

// ---- Ackermann stubs for the private helpers of trigonometry.rs
use core::sync::atomic::{AtomicBool, AtomicU64, Ordering::Relaxed};
macro_rules! ack1 { ($stub:ident, $set:ident, $a0:ident, $a1:ident, $r0:ident, $r1:ident) => {
    static $set: AtomicBool = AtomicBool::new(false);
    static $a0: AtomicU64 = AtomicU64::new(0); static $a1: AtomicU64 = AtomicU64::new(0);
    static $r0: AtomicU64 = AtomicU64::new(0); static $r1: AtomicU64 = AtomicU64::new(0);
    #[cfg(kani)]
    pub fn $stub(x: TwoFloat) -> TwoFloat {
        let (k0, k1) = (x.hi.to_bits(), x.lo.to_bits());
        if $set.load(Relaxed) && $a0.load(Relaxed) == k0 && $a1.load(Relaxed) == k1 { return TwoFloat { hi: f64::from_bits($r0.load(Relaxed)), lo: f64::from_bits($r1.load(Relaxed)) }; }
        let r: TwoFloat = kani::any();
        if !$set.load(Relaxed) { $set.store(true, Relaxed); $a0.store(k0, Relaxed); $a1.store(k1, Relaxed); $r0.store(r.hi.to_bits(), Relaxed); $r1.store(r.lo.to_bits(), Relaxed); }
        r
    }
}; }
ack1!(ack_rsin, S_RS, A0_RS, A1_RS, R0_RS, R1_RS);
ack1!(ack_rcos, S_RC, A0_RC, A1_RC, R0_RC, R1_RC);
static S_Q: AtomicBool = AtomicBool::new(false);
static A0_Q: AtomicU64 = AtomicU64::new(0); static A1_Q: AtomicU64 = AtomicU64::new(0);
static R0_Q: AtomicU64 = AtomicU64::new(0); static R1_Q: AtomicU64 = AtomicU64::new(0); static R2_Q: AtomicU64 = AtomicU64::new(0);
#[cfg(kani)]
pub fn ack_quadrant(x: TwoFloat) -> (TwoFloat, i8) {
    let (k0, k1) = (x.hi.to_bits(), x.lo.to_bits());
    if S_Q.load(Relaxed) && A0_Q.load(Relaxed) == k0 && A1_Q.load(Relaxed) == k1 {
        return (TwoFloat { hi: f64::from_bits(R0_Q.load(Relaxed)), lo: f64::from_bits(R1_Q.load(Relaxed)) }, R2_Q.load(Relaxed) as u8 as i8);
    }
    let r: TwoFloat = kani::any(); let q: i8 = kani::any();
    if !S_Q.load(Relaxed) { S_Q.store(true, Relaxed); A0_Q.store(k0, Relaxed); A1_Q.store(k1, Relaxed); R0_Q.store(r.hi.to_bits(), Relaxed); R1_Q.store(r.lo.to_bits(), Relaxed); R2_Q.store(q as u8 as u64, Relaxed); }
    (r, q)
}
