//! C01 — every result is a normalised double-double (or explicitly non-finite).
//! Operator bodies are proved modularly: `new_add/new_sub/new_mul/fast_two_sum`
//! are replaced by their contract stubs (proved under C02), so each obligation
//! also checks the callee preconditions at the call sites of the body.
use super::contracts::*;
use super::spec::*;
use crate::TwoFloat;

fn add_valid_case(kind: u8) {
    let x = any_valid();
    vassume!(in1000(x.hi));
    let r = match kind {
        0 => { let y = any_f64!(); vassume!(in1000(y)); &x + &y }
        1 => { let y = any_f64!(); vassume!(in1000(y)); &y + &x }
        2 => { let y = any_f64!(); vassume!(in1000(y)); &x - &y }
        3 => { let y = any_f64!(); vassume!(in1000(y)); &y - &x }
        4 => { let y = any_f64!(); vassume!(in1000(y)); let mut t = x; t += &y; t }
        5 => { let y = any_f64!(); vassume!(in1000(y)); let mut t = x; t -= &y; t }
        6 => { let y = any_valid(); vassume!(in1000(y.hi)); &x + &y }
        7 => { let y = any_valid(); vassume!(in1000(y.hi)); &x - &y }
        8 => { let y = any_valid(); vassume!(in1000(y.hi)); let mut t = x; t += &y; t }
        _ => { let y = any_valid(); vassume!(in1000(y.hi)); let mut t = x; t -= &y; t }
    };
    vassert!(valid(r.hi, r.lo), "sum/difference of in-range valid operands is a valid TwoFloat");
    vcover!(r.lo != 0.0, "non-zero low word reachable");
}

fn mul_valid_case(kind: u8) {
    let x = any_valid();
    vassume!(in450(x.hi));
    let r = match kind {
        0 => { let y = any_f64!(); vassume!(in450(y)); &x * &y }
        1 => { let y = any_f64!(); vassume!(in450(y)); &y * &x }
        2 => { let y = any_f64!(); vassume!(in450(y)); let mut t = x; t *= &y; t }
        3 => { let y = any_valid(); vassume!(in450(y.hi)); &x * &y }
        4 => { let y = any_valid(); vassume!(in450(y.hi)); let mut t = x; t *= &y; t }
        5 => x.to_degrees(),
        _ => x.to_radians(),
    };
    vassert!(valid(r.hi, r.lo), "product of in-range valid operands is a valid TwoFloat");
    vcover!(r.lo != 0.0, "non-zero low word reachable");
}

fn div_valid_case(kind: u8) {
    let x = any_valid(); let y = any_f64!();
    vassume!(in450(x.hi) && in450(y) && y != 0.0);
    let r = match kind {
        0 => &x / &y,
        _ => { let mut t = x; t /= &y; t }
    };
    vassert!(valid(r.hi, r.lo), "quotient TwoFloat / f64 of in-range valid operands is a valid TwoFloat");
    vcover!(r.lo != 0.0, "non-zero low word reachable");
}

harnesses! {
    #[kani::solver(kissat)] #[kani::stub(crate::arithmetic::fast_two_sum, s_fts)] #[kani::stub(TwoFloat::new_add, s_new_add)] #[kani::stub(TwoFloat::new_sub, s_new_sub)]
    fn valid_add_tf_f64() { add_valid_case(0) }
    #[kani::solver(kissat)] #[kani::stub(crate::arithmetic::fast_two_sum, s_fts)] #[kani::stub(TwoFloat::new_add, s_new_add)] #[kani::stub(TwoFloat::new_sub, s_new_sub)]
    fn valid_add_f64_tf() { add_valid_case(1) }
    #[kani::solver(kissat)] #[kani::stub(crate::arithmetic::fast_two_sum, s_fts)] #[kani::stub(TwoFloat::new_add, s_new_add)] #[kani::stub(TwoFloat::new_sub, s_new_sub)]
    fn valid_sub_tf_f64() { add_valid_case(2) }
    #[kani::solver(kissat)] #[kani::stub(crate::arithmetic::fast_two_sum, s_fts)] #[kani::stub(TwoFloat::new_add, s_new_add)] #[kani::stub(TwoFloat::new_sub, s_new_sub)]
    fn valid_sub_f64_tf() { add_valid_case(3) }
    #[kani::solver(kissat)] #[kani::stub(crate::arithmetic::fast_two_sum, s_fts)] #[kani::stub(TwoFloat::new_add, s_new_add)] #[kani::stub(TwoFloat::new_sub, s_new_sub)]
    fn valid_add_assign_f64() { add_valid_case(4) }
    #[kani::solver(kissat)] #[kani::stub(crate::arithmetic::fast_two_sum, s_fts)] #[kani::stub(TwoFloat::new_add, s_new_add)] #[kani::stub(TwoFloat::new_sub, s_new_sub)]
    fn valid_sub_assign_f64() { add_valid_case(5) }
    #[kani::solver(kissat)] #[kani::stub(crate::arithmetic::fast_two_sum, s_fts)] #[kani::stub(TwoFloat::new_add, s_new_add)] #[kani::stub(TwoFloat::new_sub, s_new_sub)]
    fn valid_add_tf_tf() { add_valid_case(6) }
    #[kani::solver(kissat)] #[kani::stub(crate::arithmetic::fast_two_sum, s_fts)] #[kani::stub(TwoFloat::new_add, s_new_add)] #[kani::stub(TwoFloat::new_sub, s_new_sub)]
    fn valid_sub_tf_tf() { add_valid_case(7) }
    #[kani::solver(kissat)] #[kani::stub(crate::arithmetic::fast_two_sum, s_fts)] #[kani::stub(TwoFloat::new_add, s_new_add)] #[kani::stub(TwoFloat::new_sub, s_new_sub)]
    fn valid_add_assign_tf() { add_valid_case(8) }
    #[kani::solver(kissat)] #[kani::stub(crate::arithmetic::fast_two_sum, s_fts)] #[kani::stub(TwoFloat::new_add, s_new_add)] #[kani::stub(TwoFloat::new_sub, s_new_sub)]
    fn valid_sub_assign_tf() { add_valid_case(9) }

    #[kani::solver(kissat)] #[kani::stub(crate::arithmetic::fast_two_sum, s_fts)] #[kani::stub(TwoFloat::new_mul, s_new_mul)] #[kani::stub(crate::arithmetic::fma, fma_fixed)]
    fn valid_mul_tf_f64() { mul_valid_case(0) }
    #[kani::solver(kissat)] #[kani::stub(crate::arithmetic::fast_two_sum, s_fts)] #[kani::stub(TwoFloat::new_mul, s_new_mul)] #[kani::stub(crate::arithmetic::fma, fma_fixed)]
    fn valid_mul_f64_tf() { mul_valid_case(1) }
    #[kani::solver(kissat)] #[kani::stub(crate::arithmetic::fast_two_sum, s_fts)] #[kani::stub(TwoFloat::new_mul, s_new_mul)] #[kani::stub(crate::arithmetic::fma, fma_fixed)]
    fn valid_mul_assign_f64() { mul_valid_case(2) }
    #[kani::solver(kissat)] #[kani::stub(crate::arithmetic::fast_two_sum, s_fts)] #[kani::stub(TwoFloat::new_mul, s_new_mul)] #[kani::stub(crate::arithmetic::fma, fma_fixed)]
    fn valid_mul_tf_tf() { mul_valid_case(3) }
    #[kani::solver(kissat)] #[kani::stub(crate::arithmetic::fast_two_sum, s_fts)] #[kani::stub(TwoFloat::new_mul, s_new_mul)] #[kani::stub(crate::arithmetic::fma, fma_fixed)]
    fn valid_mul_assign_tf() { mul_valid_case(4) }
    #[kani::solver(kissat)] #[kani::stub(crate::arithmetic::fast_two_sum, s_fts)] #[kani::stub(TwoFloat::new_mul, s_new_mul)] #[kani::stub(crate::arithmetic::fma, fma_fixed)]
    fn valid_to_degrees() { mul_valid_case(5) }
    #[kani::solver(kissat)] #[kani::stub(crate::arithmetic::fast_two_sum, s_fts)] #[kani::stub(TwoFloat::new_mul, s_new_mul)] #[kani::stub(crate::arithmetic::fma, fma_fixed)]
    fn valid_to_radians() { mul_valid_case(6) }

    #[kani::solver(kissat)] #[kani::stub(crate::arithmetic::fast_two_sum, s_fts)] #[kani::stub(TwoFloat::new_mul, s_new_mul)] #[kani::stub(crate::arithmetic::fma, fma_fixed)]
    fn valid_div_tf_f64() { div_valid_case(0) }
    #[kani::solver(kissat)] #[kani::stub(crate::arithmetic::fast_two_sum, s_fts)] #[kani::stub(TwoFloat::new_mul, s_new_mul)] #[kani::stub(crate::arithmetic::fma, fma_fixed)]
    fn valid_div_assign_f64() { div_valid_case(1) }

    /// new_div in the domain of C02 (2^-480 <= |a|,|b| <= 2^480)
    #[kani::solver(kissat)] #[kani::stub(crate::arithmetic::fast_two_sum, s_fts)] #[kani::stub(TwoFloat::new_mul, s_new_mul)] #[kani::stub(crate::arithmetic::fma, fma_fixed)]
    fn valid_new_div() {
        let a = any_f64!(); let b = any_f64!();
        vassume!(a.abs() >= 3.2e-145 && a.abs() <= 3.1e144 && b.abs() >= 3.2e-145 && b.abs() <= 3.1e144);
        let r = TwoFloat::new_div(a, b);
        vassert!(valid(r.hi, r.lo), "new_div of in-range operands is a valid TwoFloat");
        vcover!(r.lo != 0.0, "non-zero low word reachable");
    }

    /// negation preserves validity and negates the exact value (both words negated)
    #[kani::solver(kissat)]
    fn valid_neg() {
        let x = any_valid();
        let r = -x; let q = -&x;
        vassert!(valid(r.hi, r.lo) && valid(q.hi, q.lo), "-x is valid");
        vassert!(r.hi == -x.hi && r.lo == -x.lo && same_tf(&r, &q), "-x negates both words");
    }
}
