//! Fixed-width signed integer windows (256 / 384 bit) for the ghost-value
//! accuracy obligations: cheaper than `Fix` inside the solver.
use super::bits::{eexp, fld};

macro_rules! window {
    ($name:ident, $n:expr) => {
        #[derive(Clone, Copy)]
        pub struct $name(pub [u64; $n]);
        impl $name {
            pub const BITS: u32 = 64 * $n;
            pub fn zero() -> Self { Self([0; $n]) }
            pub fn from_u64(m: u64) -> Self { let mut r = [0u64; $n]; r[0] = m; Self(r) }
            pub fn add(self, o: Self) -> Self {
                let mut r = [0u64; $n]; let mut c = 0u64; let mut i = 0;
                while i < $n { let (s1, c1) = self.0[i].overflowing_add(o.0[i]); let (s2, c2) = s1.overflowing_add(c); r[i] = s2; c = (c1 as u64) + (c2 as u64); i += 1; }
                Self(r)
            }
            pub fn neg(self) -> Self {
                let mut r = [0u64; $n]; let mut c = 1u64; let mut i = 0;
                while i < $n { let (s, c1) = (!self.0[i]).overflowing_add(c); r[i] = s; c = c1 as u64; i += 1; }
                Self(r)
            }
            pub fn sub(self, o: Self) -> Self { self.add(o.neg()) }
            pub fn is_neg(self) -> bool { (self.0[$n - 1] >> 63) != 0 }
            pub fn abs(self) -> Self { if self.is_neg() { self.neg() } else { self } }
            pub fn is_zero(self) -> bool { let mut acc = 0u64; let mut i = 0; while i < $n { acc |= self.0[i]; i += 1; } acc == 0 }
            /// self <= o (no overflow of the difference)
            pub fn le(self, o: Self) -> bool { !o.sub(self).is_neg() }
            pub fn shl(self, n: u32) -> Self {
                let q = (n / 64) as usize; let rb = n % 64;
                let mut r = [0u64; $n]; let mut i = 0;
                while i < $n { if i >= q { let lo = self.0[i - q] << rb; let hi = if rb == 0 || i - q == 0 { 0 } else { self.0[i - q - 1] >> (64 - rb) }; r[i] = lo | hi; } i += 1; }
                Self(r)
            }
            /// multiply a non-negative value by a small constant
            pub fn mul_small(self, k: u64) -> Self {
                if k == 1 { return self; }
                if k == 2 { return self.shl(1); }
                if k == 3 * (1u64 << 53) + 13 { return self.shl(54).add(self.shl(53)).add(self.shl(3)).add(self.shl(2)).add(self); }
                let mut acc = Self::zero(); let mut kk = k; let mut i = 0u32;
                while kk != 0 { if kk & 1 != 0 { acc = acc.add(self.shl(i)); } kk >>= 1; i += 1; }
                acc
            }
            /// non-negative self < 2^k
            pub fn lt_pow2(self, k: u32) -> bool {
                let q = (k / 64) as usize; let rb = k % 64;
                let mut ok = true; let mut i = 0;
                while i < $n { if i > q && self.0[i] != 0 { ok = false; } if i == q && (self.0[i] >> rb) != 0 { ok = false; } i += 1; }
                ok
            }
            /// x in units of 2^(anchor-1075); None if it does not fit or is not a multiple
            pub fn at(x: f64, anchor: i32, maxup: i32) -> Option<Self> {
                let (n, m, e) = fld(x);
                if m == 0 { return Some(Self::zero()); }
                let v = if e >= anchor { let k = e - anchor; if k > maxup { return None; } Self::from_u64(m).shl(k as u32) }
                        else { let k = anchor - e; if k >= 64 || (m & ((1u64 << k) - 1)) != 0 { return None; } Self::from_u64(m >> k) };
                Some(if n { v.neg() } else { v })
            }
        }
    };
}
window!(W, 4);
window!(X, 6);
window!(Y, 8);
