//! Specification library.  Layer 1 (`fix`, definitional, exact dyadic
//! arithmetic) and Layer 2 (`bits`, cheap integer predicates on the f64
//! fields).  The un-suffixed predicates below dispatch: Layer 2 inside the
//! solver, Layer 1 in native replay, so an alarm is only ever raised on a
//! disagreement between the real code and the *definitional* specification.
pub mod bits;
pub mod fix;
pub mod win;

use crate::TwoFloat;
pub use bits::*;
use fix::{fx, Fix};

/// Definition 1.4: both words finite and hi == RN(hi + lo)
#[inline]
pub fn valid_def(hi: f64, lo: f64) -> bool { hi.is_finite() && lo.is_finite() && hi + lo == hi }

#[cfg(kani)]
#[inline]
pub fn valid(hi: f64, lo: f64) -> bool { bits::valid_bits(hi, lo) }
#[cfg(not(kani))]
#[inline]
pub fn valid(hi: f64, lo: f64) -> bool { valid_def(hi, lo) }

pub fn vtf(x: &TwoFloat) -> bool { valid(x.hi, x.lo) }
/// valid, or explicitly non-finite high word
pub fn ival(x: &TwoFloat) -> bool { valid(x.hi, x.lo) || !x.hi.is_finite() }

/// hi + lo == a + b over the reals (all four finite)
pub fn exact2_def(hi: f64, lo: f64, a: f64, b: f64) -> bool {
    hi.is_finite() && lo.is_finite() && a.is_finite() && b.is_finite() && fx(hi).add(fx(lo)).eq(fx(a).add(fx(b)))
}
#[cfg(kani)]
#[inline]
pub fn exact2(hi: f64, lo: f64, a: f64, b: f64) -> bool { bits::exact_sum2_sgap(hi, lo, a, b) }
#[cfg(not(kani))]
#[inline]
pub fn exact2(hi: f64, lo: f64, a: f64, b: f64) -> bool { exact2_def(hi, lo, a, b) }

/// exact value of a pair
pub fn val(x: &TwoFloat) -> Fix { fx(x.hi).add(fx(x.lo)) }

pub fn same(x: f64, y: f64) -> bool { x.to_bits() == y.to_bits() || (x.is_nan() && y.is_nan()) }
pub fn same_tf(x: &TwoFloat, y: &TwoFloat) -> bool { same(x.hi, y.hi) && same(x.lo, y.lo) }
