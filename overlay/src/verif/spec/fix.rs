//! Layer 1: exact dyadic arithmetic.  `Fix` is a 2432-bit two's-complement
//! fixed-point number (38 x u64, bit i has weight 2^(i-1200)): it holds every
//! finite f64, sums of a few of them, and such a sum shifted left by 160 bits.
use core::cmp::Ordering;

pub const LIMBS: usize = 38;
pub const BIAS: i32 = 1200;
#[derive(Clone, Copy)]
pub struct Fix(pub [u64; LIMBS]);

impl Fix {
    pub fn zero() -> Fix { Fix([0u64; LIMBS]) }
    /// exact value of a finite f64 (non-finite input: unspecified)
    pub fn from_f64(x: f64) -> Fix {
        let bits = x.to_bits();
        let neg = (bits >> 63) != 0;
        let be = ((bits >> 52) & 0x7ff) as i32;
        let frac = bits & ((1u64 << 52) - 1);
        let (m, e) = if be == 0 { (frac, -1074) } else { (frac | (1u64 << 52), be - 1075) };
        let sh = (e + BIAS) as usize;
        let idx = sh / 64;
        let off = (sh % 64) as u32;
        let lo = m << off;
        let hi = if off == 0 { 0 } else { m >> (64 - off) };
        let mut r = [0u64; LIMBS];
        let mut i = 0;
        while i < LIMBS {
            if i == idx { r[i] = lo; }
            if i == idx + 1 { r[i] = hi; }
            i += 1;
        }
        let f = Fix(r);
        if neg { f.neg() } else { f }
    }
    pub fn neg(self) -> Fix {
        let mut r = [0u64; LIMBS];
        let mut carry = 1u64;
        let mut i = 0;
        while i < LIMBS {
            let (s, c) = (!self.0[i]).overflowing_add(carry);
            r[i] = s;
            carry = c as u64;
            i += 1;
        }
        Fix(r)
    }
    pub fn add(self, o: Fix) -> Fix {
        let mut r = [0u64; LIMBS];
        let mut carry = 0u64;
        let mut i = 0;
        while i < LIMBS {
            let (s1, c1) = self.0[i].overflowing_add(o.0[i]);
            let (s2, c2) = s1.overflowing_add(carry);
            r[i] = s2;
            carry = (c1 as u64) + (c2 as u64);
            i += 1;
        }
        Fix(r)
    }
    pub fn sub(self, o: Fix) -> Fix { self.add(o.neg()) }
    pub fn eq(self, o: Fix) -> bool {
        let mut acc = 0u64;
        let mut i = 0;
        while i < LIMBS { acc |= self.0[i] ^ o.0[i]; i += 1; }
        acc == 0
    }
    pub fn is_zero(self) -> bool { self.eq(Fix::zero()) }
    pub fn is_neg(self) -> bool { (self.0[LIMBS - 1] >> 63) != 0 }
    pub fn abs(self) -> Fix { if self.is_neg() { self.neg() } else { self } }
    pub fn sign(self) -> i8 { if self.is_neg() { -1 } else if self.is_zero() { 0 } else { 1 } }
    pub fn cmp(self, o: Fix) -> Ordering {
        match self.sub(o).sign() { -1 => Ordering::Less, 0 => Ordering::Equal, _ => Ordering::Greater }
    }
    /// self <= o
    pub fn le(self, o: Fix) -> bool { !o.sub(self).is_neg() }
    /// floor: clear all bits of weight < 2^0 (two's complement)
    pub fn floor(self) -> Fix {
        let q = (BIAS as usize) / 64;
        let rb = (BIAS as usize) % 64;
        let mut r = self.0;
        let mut i = 0;
        while i < LIMBS {
            if i < q { r[i] = 0; }
            if i == q { r[i] &= !((1u64 << rb) - 1); }
            i += 1;
        }
        Fix(r)
    }
    pub fn ceil(self) -> Fix { self.neg().floor().neg() }
    pub fn trunc(self) -> Fix { if self.is_neg() { self.ceil() } else { self.floor() } }
    /// nearest integer, halves away from zero
    pub fn round(self) -> Fix { if self.is_neg() { self.sub(fx(0.5)).ceil() } else { self.add(fx(0.5)).floor() } }
    pub fn is_int(self) -> bool { self.eq(self.floor()) }
    /// exact value of sign * n
    pub fn from_u128(n: u128, neg: bool) -> Fix {
        let q = (BIAS as usize) / 64;
        let rb = ((BIAS as usize) % 64) as u32;
        let w0 = n as u64;
        let w1 = (n >> 64) as u64;
        let mut r = [0u64; LIMBS];
        if rb == 0 { r[q] = w0; r[q + 1] = w1; }
        else { r[q] = w0 << rb; r[q + 1] = (w0 >> (64 - rb)) | (w1 << rb); r[q + 2] = w1 >> (64 - rb); }
        let f = Fix(r);
        if neg { f.neg() } else { f }
    }
    pub fn from_i128(n: i128) -> Fix { Fix::from_u128(n.unsigned_abs(), n < 0) }
    /// shift left (multiply by 2^n); caller keeps the value in range
    pub fn shl(self, n: usize) -> Fix {
        let q = n / 64;
        let rbits = (n % 64) as u32;
        let mut r = [0u64; LIMBS];
        let mut i = 0;
        while i < LIMBS {
            if i >= q {
                let lo = self.0[i - q] << rbits;
                let hi = if rbits == 0 || i - q == 0 { 0 } else { self.0[i - q - 1] >> (64 - rbits) };
                r[i] = lo | hi;
            }
            i += 1;
        }
        Fix(r)
    }
    /// multiply a non-negative value by a small constant (shift-and-add over the set bits, no
    /// more iterations than the bit length of k)
    pub fn mul_small(self, k: u64) -> Fix {
        if k == 1 { return self; }
        if k == 2 { return self.shl(1); }
        if k == 3 * (1u64 << 53) + 13 {
            return self.shl(54).add(self.shl(53)).add(self.shl(3)).add(self.shl(2)).add(self);
        }
        let mut acc = Fix::zero();
        let mut kk = k;
        let mut i = 0;
        while kk != 0 {
            if kk & 1 != 0 { acc = acc.add(self.shl(i)); }
            kk >>= 1;
            i += 1;
        }
        acc
    }
    /// |err| <= |exact| * num * 2^-sh   (num small, sh <= 170; values within f64 range)
    pub fn rel_le(err: Fix, exact: Fix, num: u64, sh: usize) -> bool {
        err.abs().shl(sh).le(exact.abs().mul_small(num))
    }
}
pub fn fx(x: f64) -> Fix { Fix::from_f64(x) }
