//! Layer 2: integer predicates on the IEEE-754 binary64 fields.
use crate::TwoFloat;
use core::cmp::Ordering;

pub const M52: u64 = (1u64 << 52) - 1;
pub const P1023: f64 = 8.98846567431158e307; // 2^1023
pub const P1000: f64 = 1.0715086071862673e301; // 2^1000
pub const M1000: f64 = 9.332636185032189e-302; // 2^-1000
pub const P450: f64 = 2.9073548971824276e135; // 2^450
pub const M450: f64 = 3.4395525670743494e-136; // 2^-450
pub const M960: f64 = 1.0261342003245941e-289; // 2^-960

pub fn in1000(x: f64) -> bool { x == 0.0 || (x.abs() >= M1000 && x.abs() <= P1000) }
pub fn in450(x: f64) -> bool { x == 0.0 || (x.abs() >= M450 && x.abs() <= P450) }

/// decides "both finite and hi == RN(hi + lo)" from the fields (lemma L0)
pub fn valid_bits(hi: f64, lo: f64) -> bool {
    let hb = hi.to_bits();
    let lb = lo.to_bits();
    let he = ((hb >> 52) & 0x7ff) as i32;
    let le = ((lb >> 52) & 0x7ff) as i32;
    let hm = hb & M52;
    let lm = lb & M52;
    if he == 0x7ff || le == 0x7ff { return false; }
    if le == 0 && lm == 0 { return true; }
    if he == 0 { return false; }
    let opp = (hb >> 63) != (lb >> 63);
    let k = if hm == 0 && opp { he - 54 } else { he - 53 };
    if k >= 1 {
        if le < k { true } else if le == k && lm == 0 { (hb & 1) == 0 } else { false }
    } else {
        if le != 0 { return false; }
        if k + 51 < 0 { return false; }
        let t = 1u64 << (k + 51);
        if lm < t { true } else if lm == t { (hb & 1) == 0 } else { false }
    }
}

/// effective exponent field (subnormals share the field of the smallest normals)
pub fn eexp(x: f64) -> i32 { let e = ((x.to_bits() >> 52) & 0x7ff) as i32; if e == 0 { 1 } else { e } }
/// effective exponent field, i32::MAX for zero
pub fn efld_nz(x: f64) -> i32 { if x == 0.0 { i32::MAX } else { eexp(x) } }

/// (negative, integer significand, effective exponent field): x = ±m·2^(e-1075)
pub fn fld(x: f64) -> (bool, u64, i32) {
    let b = x.to_bits();
    let be = ((b >> 52) & 0x7ff) as i32;
    let f = b & M52;
    if be == 0 { ((b >> 63) != 0, f, 1) } else { ((b >> 63) != 0, f | (1u64 << 52), be) }
}

/// value of x in units of 2^(anchor-1075); None if outside the window
pub fn at_anchor(x: f64, anchor: i32, maxup: i32) -> Option<i128> {
    let (n, m, e) = fld(x);
    if m == 0 { return Some(0); }
    let v: i128 = if e >= anchor {
        let k = e - anchor;
        if k > maxup || k > 70 { return None; }
        (m as i128) << k
    } else {
        let k = anchor - e;
        if k >= 64 { return None; }
        if m & ((1u64 << k) - 1) != 0 { return None; }
        (m >> k) as i128
    };
    Some(if n { -v } else { v })
}

/// pre: eexp(a) - eexp(b) == d, 0 <= d <= 56.  Sufficient for hi+lo == a+b.
pub fn exact_sum2_gap(hi: f64, lo: f64, a: f64, b: f64, d: i32) -> bool {
    let anchor = eexp(b);
    match (at_anchor(a, anchor, d), at_anchor(b, anchor, 0), at_anchor(hi, anchor, d + 1), at_anchor(lo, anchor, d + 1)) {
        (Some(x), Some(y), Some(z), Some(w)) => x + y == z + w,
        _ => false,
    }
}

/// Sufficient condition for hi + lo == a + b over the reals (all finite),
/// anchored at the smaller exponent field; operands more than 56 binades
/// apart must come back unchanged (as values).
pub fn exact_sum2_sgap(hi: f64, lo: f64, a: f64, b: f64) -> bool {
    if !(hi.is_finite() && lo.is_finite() && a.is_finite() && b.is_finite()) { return false; }
    let d = eexp(a) - eexp(b);
    if d >= 0 {
        if d > 56 { hi == a && lo == b } else { exact_sum2_gap(hi, lo, a, b, d) }
    } else if d < -56 { hi == b && lo == a } else { exact_sum2_gap(hi, lo, b, a, -d) }
}

pub fn lex(a: &TwoFloat, b: &TwoFloat) -> Ordering {
    if a.hi < b.hi { Ordering::Less } else if a.hi > b.hi { Ordering::Greater }
    else if a.lo < b.lo { Ordering::Less } else if a.lo > b.lo { Ordering::Greater } else { Ordering::Equal }
}

// ---- rounding of one f64 by mask arithmetic (lemma L-libm ties these to libm)
pub fn spec_trunc(x: f64) -> f64 {
    let b = x.to_bits();
    let e = ((b >> 52) & 0x7ff) as i32 - 1023;
    if e >= 52 { return x; }
    if e < 0 { return f64::from_bits(b & (1u64 << 63)); }
    let mask = (1u64 << (52 - e)) - 1;
    f64::from_bits(b & !mask)
}
pub fn spec_floor(x: f64) -> f64 {
    if x.is_nan() { return x; }
    let t = spec_trunc(x);
    if t == x { x } else if x < 0.0 { t - 1.0 } else { t }
}
pub fn spec_ceil(x: f64) -> f64 {
    if x.is_nan() { return x; }
    let t = spec_trunc(x);
    if t == x { x } else if x > 0.0 { t + 1.0 } else { t }
}
/// half away from zero
pub fn spec_round(x: f64) -> f64 {
    let t = spec_trunc(x);
    if t == x || x.is_nan() { return x; }
    let f = x - t; // exact
    if f.abs() >= 0.5 { if x > 0.0 { t + 1.0 } else { t - 1.0 } } else { t }
}
pub fn is_int(x: f64) -> bool { x.is_finite() && spec_trunc(x) == x }
/// fractional part with the sign of x (libm::modf(x).0 for finite x)
pub fn spec_fract(x: f64) -> f64 { x - spec_trunc(x) }
